#!/usr/bin/env python3
"""(Re)generates /verif/mutants/*.patch: my own sensitivity mutants, each a small edit of /repo that still compiles.
Each entry: id, property expected to catch it, file, old text, new text, what it needs to manifest."""
import os, subprocess, json, sys, tempfile, shutil
VERIF = os.path.dirname(os.path.dirname(os.path.abspath(__file__)))
M = [
 ("M01_ham_bcast_root0", ["C06"], "src/pomerol/Hamiltonian.cpp",
  "                boost::mpi::broadcast(comm, parts[p]->Eigenvalues.data(), parts[p]->H.rows(), job_map[p]);",
  "                boost::mpi::broadcast(comm, parts[p]->Eigenvalues.data(), parts[p]->H.rows(), 0);",
  "non-owner ranks name rank 0 as root of the eigenvalue broadcast: needs a block diagonalised by a rank != 0"),
 ("M02_ham_status_nonowner", ["C06"], "src/pomerol/Hamiltonian.cpp",
  "                parts[p]->Status = HamiltonianPart::Computed;\n",
  "",
  "non-owner ranks never mark a received block Computed: needs >= 2 ranks and a block owned by another rank"),
 ("M03_term_serialize_isz4", ["C06", "C13"], "include/pomerol/TwoParticleGFPart.h",
  "            ar & Coeff; ar & Poles; ar & isz4; ar & Weight;",
  "            ar & Coeff; ar & Poles; ar & Weight;",
  "NonResonantTerm::serialize drops isz4: only terms that travelled through MPI are wrong, i.e. evaluation on a rank that did not compute the part"),
 ("M04_reduce_root1", ["C06"], "src/pomerol/TwoParticleGF.cpp",
  "m_data2.data(), std::plus<ComplexType>(), 0);",
  "m_data2.data(), std::plus<ComplexType>(), comm.size()-1);",
  "frequency table reduced to the last rank instead of rank 0: needs >= 2 ranks and a non-empty frequency list"),
 ("M05_check_workers_index", ["C16"], "src/mpi_dispatcher/mpi_dispatcher.cpp",
  "            WorkerStack.push(worker_pool[i]);",
  "            WorkerStack.push(i);",
  "idle worker re-queued by pool index instead of worker id: needs a worker pool that is not 0..n-1 (master not working, or custom pool) and more jobs than workers"),
 ("M06_skel_nonroot_workers_bcast", ["C16", "C06"], "include/mpi_dispatcher/mpi_skel.hpp",
  "        for (size_t i=0; i<jobs.size(); i++) job_map[jobs[i]] = workers[i]; ",
  "        for (size_t i=0; i<jobs.size(); i++) job_map[jobs[i]] = workers[i] % 2; ",
  "non-root ranks fold the worker ids of the returned map: needs >= 3 ranks and a job run by rank >= 2"),
 ("M07_split_colour_arith", ["C06"], "src/pomerol/TwoParticleGFContainer.cpp",
  "        int color = i*ncolors/ncomponents;",
  "        int color = i*ncolors/(ncomponents+1);",
  "element colours computed with a different divisor: components are merely distributed less evenly over the colours (some colour may idle); every component is still computed and broadcast correctly - an equivalent mutant, *negative control*"),
 ("M08_alias_perm_swapped", ["C13"], "include/pomerol/IndexContainer4.h",
  "                ElementWithPermFreq<ElementType>(pElement,permutations4[7])));",
  "                ElementWithPermFreq<ElementType>(pElement,permutations4[6])));",
  "doubly exchanged alias (jilk) uses the permutation of the singly exchanged one: only visible when jilk is an alias and is evaluated"),
 ("M09_ham_bcast_count", ["C17", "C06"], "src/pomerol/Hamiltonian.cpp",
  "                boost::mpi::broadcast(comm, parts[p]->Eigenvalues.data(), parts[p]->H.rows(), rank);",
  "                boost::mpi::broadcast(comm, parts[p]->Eigenvalues.data(), parts[p]->H.rows()+1, rank);",
  "owner broadcasts one eigenvalue too many: count mismatch / read past the end of the eigenvalue vector on multi-rank runs"),
 ("M10_double_finish", ["C16"], "src/mpi_dispatcher/mpi_dispatcher.cpp",
  "                workers_finish[i] = true; // to prevent double sending of Finish command that could overlap with other communication\n",
  "",
  "Finish is sent again on every later check_workers call: extra Finish messages leak into the next round; needs the master not to be the last to finish, and a second round"),
 ("M11_worker_no_cancel", ["C16", "C17"], "src/mpi_dispatcher/mpi_dispatcher.cpp",
  "        if(is_finished()) req.cancel();\n",
  "",
  "finished worker leaves its re-posted receive pending: it swallows the first message of the next round (and writes into a dead MPIWorker); needs >= 2 rounds"),
 ("M12_skel_drop_end_barriers", ["C16"], "include/mpi_dispatcher/mpi_skel.hpp",
  "    comm.barrier();\n    // Now spread the information, who did what.\n\tif (VerboseOutput && rank==ROOT) std::cout << \"done.\" << std::endl;\n    comm.barrier();\n",
  "    // Now spread the information, who did what.\n\tif (VerboseOutput && rank==ROOT) std::cout << \"done.\" << std::endl;\n",
  "no barrier between the dispatch loop and the map broadcast: harmless alone (the broadcasts still order the ranks) - a *negative control* expected NOT to be caught"),
 ("M13_termlist_bcast_wrong_owner", ["C06"], "src/pomerol/TwoParticleGF.cpp",
  "                boost::mpi::broadcast(comm, parts[p]->ResonantTerms, job_map[p]);",
  "                boost::mpi::broadcast(comm, parts[p]->ResonantTerms, job_map[0]);",
  "resonant terms of every part are broadcast from the owner of part 0: wrong only when parts are spread over >= 2 ranks"),
 ("M14_order_before_recv", ["C16"], "src/mpi_dispatcher/mpi_dispatcher.cpp",
  "    Comm.send(worker,int(pMPI::Work),job);\n    //DEBUG(id << \"->\" << worker << \" tag: work\",MPI_DEBUG_VERBOSITY,1);\n    DispatchMap[job]=worker;\n    wait_statuses[WorkerIndices[worker]] = Comm.irecv(worker,int(pMPI::Pending));",
  "    wait_statuses[WorkerIndices[worker]] = Comm.irecv(worker,int(pMPI::Pending));\n    Comm.send(worker,int(pMPI::Work),job);\n    //DEBUG(id << \"->\" << worker << \" tag: work\",MPI_DEBUG_VERBOSITY,1);\n    DispatchMap[job]=worker;",
  "master posts the completion receive BEFORE sending the work order: on rank 0 (master == worker) the self-sent Work message then matches the master's own Pending receive?  no - tags differ, so this is a *negative control* (behaviour-preserving reordering)"),
 ("M15_worker_recv_specific_tag", ["C16"], "src/mpi_dispatcher/mpi_dispatcher.cpp",
  "        req = Comm.irecv(boss, MPI_ANY_TAG, current_job_);\n        if(is_finished()) req.cancel();",
  "        if(!is_finished()) req = Comm.irecv(boss, MPI_ANY_TAG, current_job_);",
  "'optimisation': do not re-post after Finish - but req then still refers to the completed request; behaviour-preserving, *negative control*"),
 ("M16_split_sender_last_of_colour", ["C06"], "src/pomerol/TwoParticleGFContainer.cpp",
  "        if (!color_roots.count(color)) color_roots[color]=p;",
  "        color_roots[color]=p;",
  "the pre-fix D1 behaviour: last rank of a colour as sender: zero frequency tables when a colour has >= 2 ranks (terms are unaffected, so C13 does not and should not see it)"),
 ("M17_omp_shared_index", ["C06"], "src/pomerol/TwoParticleGF.cpp",
  "            for (int w = 0; w < wsize; ++w) {\n                (*data_)[w] += ",
  "            for (int w = 0; w < wsize; ++w) {\n                (*data_)[(w + omp_get_thread_num()) % wsize] += ",
  "frequency index shifted by the OpenMP thread number: correct with one thread, wrong tables with >= 2 threads and >= 2 frequencies"),
 ("M18_ham_prepare_skip_resize", ["C17", "C06"], "src/pomerol/Hamiltonian.cpp",
  "                parts[p]->H.resize(parts[p]->getSize(),parts[p]->getSize());\n",
  "",
  "non-owner does not allocate the block before receiving it: broadcast writes through a null/short buffer; needs >= 2 ranks"),
 ("M19_omp_shared_temporary", ["C06"], "src/pomerol/TwoParticleGF.cpp",
  "            int wsize = freqs_->size();\n            #ifdef POMEROL_USE_OPENMP\n            #pragma omp parallel for\n            #endif\n            for (int w = 0; w < wsize; ++w) {\n                (*data_)[w] += (*p)(boost::get<0>((*freqs_)[w]), boost::get<1>((*freqs_)[w]), boost::get<2>((*freqs_)[w]));",
  "            int wsize = freqs_->size();\n            ComplexType value;\n            #ifdef POMEROL_USE_OPENMP\n            #pragma omp parallel for\n            #endif\n            for (int w = 0; w < wsize; ++w) {\n                value = (*p)(boost::get<0>((*freqs_)[w]), boost::get<1>((*freqs_)[w]), boost::get<2>((*freqs_)[w]));\n                (*data_)[w] += value;",
  "a temporary hoisted out of the OpenMP loop becomes shared between the threads: a data race between iterations - invisible to serialised logical threads, needs real threads (TSan probe)"),
 ("N02_sort_ascending", ["C16", "C06"], "include/mpi_dispatcher/mpi_skel.hpp",
  "            return (this_->parts[l].complexity > this_->parts[r].complexity); } BOOST_LOCAL_FUNCTION_NAME_TPL(comp1) ",
  "            return (this_->parts[l].complexity < this_->parts[r].complexity); } BOOST_LOCAL_FUNCTION_NAME_TPL(comp1) ",
  "jobs handed out in ascending instead of descending complexity: another job-to-rank map, same results - *negative control*"),
 ("N03_table_all_reduce", ["C06"], "src/pomerol/TwoParticleGF.cpp",
  "        boost::mpi::reduce(comm, m_data.data(), m_data.size(), m_data2.data(), std::plus<ComplexType>(), 0);",
  "        boost::mpi::all_reduce(comm, m_data.data(), m_data.size(), m_data2.data(), std::plus<ComplexType>());",
  "frequency table all_reduced instead of reduced to the root: every rank gets the table, the root's is unchanged - *negative control* (the property only requires the root's table for the unsplit paths)"),
 ("N04_extra_barriers", ["C06"], "src/pomerol/Hamiltonian.cpp",
  "    computeGroundEnergy();\n    Status = Computed;",
  "    comm.barrier();\n    computeGroundEnergy();\n    comm.barrier();\n    Status = Computed;",
  "two more barriers at the end of Hamiltonian::compute - *negative control*"),
 ("N05_split_explicit_key", ["C06", "C13"], "src/pomerol/TwoParticleGFContainer.cpp",
  "    boost::mpi::communicator comm_split = comm.split(proc_colors[comm.rank()]);",
  "    boost::mpi::communicator comm_split = comm.split(proc_colors[comm.rank()], comm.rank());",
  "explicit key = old rank in the split (the default ordering) - *negative control*"),
 ("N06_report_isend_wait", ["C16"], "src/mpi_dispatcher/mpi_dispatcher.cpp",
  "    Comm.send(boss, int(pMPI::Pending));",
  "    Comm.isend(boss, int(pMPI::Pending)).wait();",
  "completion report sent with isend+wait instead of send - *negative control*"),
]


def main():
    out = os.path.join(VERIF, "mutants")
    os.makedirs(out, exist_ok=True)
    wt = tempfile.mkdtemp(prefix="mkmut_", dir="/tmp")
    shutil.rmtree(wt)
    subprocess.check_call(["git", "-C", "/repo", "worktree", "add", "-q", "--detach", wt, "HEAD"])
    meta = []
    try:
        for mid, props, f, old, new, needs in M:
            p = os.path.join(wt, f)
            s = open(p).read()
            if s.count(old) != 1:
                print("SKIP %s: pattern occurs %d times" % (mid, s.count(old))); continue
            open(p, "w").write(s.replace(old, new))
            d = subprocess.check_output(["git", "-C", wt, "diff"], text=True)
            open(os.path.join(out, mid + ".patch"), "w").write(d)
            subprocess.check_call(["git", "-C", wt, "checkout", "-q", "--", "."])
            meta.append(dict(id=mid, expected_caught_by=props, file=f, needs=needs, negative_control="negative control" in needs))
            print("wrote", mid)
    finally:
        subprocess.call(["git", "-C", "/repo", "worktree", "remove", "--force", wt])
    # the reverse patches of the seven fix: commits (mutants/reverts/*.patch, generated with `git diff <fix> <fix>^`) stay listed
    old = [m for m in json.load(open(os.path.join(out, "mutants.json"))) if m["id"].startswith("reverts/")] if os.path.exists(os.path.join(out, "mutants.json")) else []
    json.dump(meta + old, open(os.path.join(out, "mutants.json"), "w"), indent=1)

if __name__ == "__main__":
    main()
