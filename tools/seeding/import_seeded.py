import sys, os, shutil, json, glob
wt, name, sid, prop, needs = sys.argv[1:6]
src = os.path.join(wt, "_mutants", name)
dst = os.path.join("/verif/seeded", sid)
os.makedirs(dst, exist_ok=True)
for f in glob.glob(os.path.join(src, "*")):
    if os.path.isfile(f) and os.path.getsize(f) < 200000 and not os.path.basename(f).startswith("demo") or f.endswith(".cpp") or f.endswith(".sh") or f.endswith(".md") or f.endswith(".diff"):
        if os.path.isfile(f): shutil.copy(f, dst)
log = "/tmp/confirm_%s_%s.log" % (os.path.basename(wt), name)
summary = open(log).read() if os.path.exists(log) else ""
meta = dict(id=sid, property=prop, origin="independent sub-agent given only the property text and a scratch worktree (%s/%s)" % (os.path.basename(wt), name),
            needs_to_manifest=needs,
            confirmed_by_me=dict(how="in the agent's scratch worktree, clean checkout: run_demo.sh -> pass; git apply patch.diff; cmake --build; ctest (20 tests) -> all pass; run_demo.sh -> fail; checkout restored",
                                 log=summary[-1500:]))
json.dump(meta, open(os.path.join(dst, "meta.json"), "w"), indent=1)
print("imported", sid, os.listdir(dst))
