import sys
pid, wt, hint = sys.argv[1], sys.argv[2], sys.argv[3]
prop = open('/tmp/prop_%s.txt' % pid).read()
print(f"""You are helping test a verification setup by producing realistic *breaking changes* (mutants) to an open-source C++ library, pomerol (exact diagonalisation, Green's functions, MPI + OpenMP). You have your own scratch git worktree of the library at {wt} (a git worktree; work ONLY inside it; never touch /repo or /verif and do not read anything under /verif).

The property your change must break:

{prop}

Task: produce TWO different, independent changes to the library source (under {wt}/src or {wt}/include) such that for each change:
  1. the library and its tests still compile, and the existing test suite (20 tests) still passes;
  2. the property above is violated, but only under something specific: a particular interleaving / timing, a particular number of MPI ranks or jobs or components, a multi-step sequence of calls, an unusual (but valid) input, or two cooperating edits that each look harmless alone. Do NOT produce changes that any ordinary single use of the library would expose at once, and do not just re-break something in a way the existing tests catch. {hint}
  3. the change looks like something a developer could plausibly commit (a refactoring slip, an 'optimisation', an off-by-one, a wrong root/rank/index, a dropped synchronisation, a mishandled corner case), is small (a few lines), and is NOT guarded by any macro.
For each change also write a demonstration: a small C++ program (or shell script driving one) that FAILS (non-zero exit, hang detected by timeout, sanitizer report, or wrong numbers detected by the program) with the change applied and PASSES on the unchanged worktree. Demonstrations may use real MPI: `mpiexec --oversubscribe -np N ./demo` works here when the environment has OMPI_ALLOW_RUN_AS_ROOT=1 OMPI_ALLOW_RUN_AS_ROOT_CONFIRM=1. If the failure depends on timing, make the demonstration force the timing (e.g. sleeps in job bodies, specific rank counts) so that it fails reliably; a `timeout 60` wrapper is the way to demonstrate a hang.

How to build and test in your worktree (no network is available; everything needed is installed):
  cd {wt} && cmake -S . -B _build -G Ninja -DCMAKE_BUILD_TYPE=RelWithDebInfo -DTesting=ON && cmake --build _build -j6
  OMPI_ALLOW_RUN_AS_ROOT=1 OMPI_ALLOW_RUN_AS_ROOT_CONFIRM=1 ctest --test-dir _build -j6 --timeout 900
A demo can be compiled like:
  g++ -std=c++11 -fopenmp -O1 -g -I{wt}/include -I{wt}/_build/include -I/usr/include/eigen3 -I/usr/lib/x86_64-linux-gnu/openmpi/include demo.cpp -o demo -L{wt}/_build -lpomerol -Wl,-rpath,{wt}/_build -lboost_mpi -lboost_serialization -lmpi_cxx -lmpi
(the tests under {wt}/test show how to set up a model and call the library; add -fsanitize=address,undefined to both the library build, via -DCMAKE_CXX_FLAGS, and the demo if your demonstration relies on a sanitizer - use a separate build directory such as _build_san for that).

Deliverables, written under {wt}/_mutants/<short-name>/ (one directory per change, two directories in total):
  patch.diff      - `git diff` of the change against the unchanged worktree (source files only; must apply with `git apply` to a clean checkout)
  demo.cpp (and/or run_demo.sh) - the demonstration; run_demo.sh must build and run it given the worktree path as $1 and exit 0 on pass, non-zero on fail
  README.md       - what the change is, which part of the property it breaks, exactly what is needed for it to manifest (ranks, jobs, timing, call sequence, input), and the commands you ran with their observed results (demo on unchanged tree: pass; demo with change: fail; ctest with change: all 20 pass)
When you are done, leave the worktree's tracked files UNMODIFIED (git -C {wt} checkout -- . ; the _mutants and _build directories are untracked and stay). Verify each claim by actually running the commands; do not report a change you could not demonstrate. Keep builds to -j6. Your final message should list the two directories and one line each on what they need in order to manifest.""")
