#!/bin/bash
# confirm.sh <worktree> <mutant-name>: demo passes on clean tree, patch applies, ctest 20/20 with patch, demo fails with patch
export OMPI_ALLOW_RUN_AS_ROOT=1 OMPI_ALLOW_RUN_AS_ROOT_CONFIRM=1
wt=$1; name=$2; d=$wt/_mutants/$name; log=/tmp/confirm_$(basename $wt)_$name.log
{
cd $wt && git checkout -q -- . && git status --short | grep -v "^??" 
echo "== demo on clean tree"; (cd $d && timeout 900 bash ./run_demo.sh $wt > $log.clean 2>&1; echo "exit=$?")
echo "== apply"; git -C $wt apply $d/patch.diff && echo applied; git -C $wt diff --stat | tail -1
echo "== build + ctest with patch"; cmake --build $wt/_build -j8 2>&1 | tail -1; ctest --test-dir $wt/_build -j8 --timeout 900 2>&1 | grep -E "tests passed|Failed|\*\*\*" | head -5
echo "== demo with patch"; (cd $d && timeout 900 bash ./run_demo.sh $wt > $log.mut 2>&1; echo "exit=$?")
git -C $wt checkout -q -- . ; cmake --build $wt/_build -j8 2>&1 | tail -1
} > $log 2>&1
echo "$(basename $wt)/$name: $(grep -A1 '== demo on clean' $log | tail -1) | $(grep 'tests passed' $log) | with patch: $(grep -A1 '== demo with patch' $log | tail -1)"
