#!/usr/bin/env python3
"""Writes /verif/MANIFEST.json (kept in a script so the long texts stay maintainable)."""
import json, os
HERE = os.path.dirname(os.path.dirname(os.path.abspath(__file__)))

NA_COMMON = ("pure function of its input evaluated by single-threaded code: no schedule, clock, message, fault or shared "
             "state for a simulator to own; deterministic simulation adds nothing over input generation (DESIGN.md §4)")
NA = {
 "C01": "G equals its definition - pure numerics; GreensFunction/GFContainer never touch a communicator. " + NA_COMMON,
 "C02": "chi equals its definition on both evaluation paths - pure numerics at fixed rank/thread count (the rank/thread dependence of the table path is decided under C06). " + NA_COMMON,
 "C03": "block diagonalisation reproduces the full spectrum - pure linear algebra ('every rank holds the same eigen-data' is decided under C06). " + NA_COMMON,
 "C04": "lattice terms and presets produce the documented Hamiltonian - pure term construction. " + NA_COMMON,
 "C05": "symbolic operator algebra - pure algebra. " + NA_COMMON,
 "C07": "symmetry analysis yields a sound partition - pure combinatorics over Fock states. " + NA_COMMON,
 "C08": "observables invariant under the partition - configuration-only differential numerics. " + NA_COMMON,
 "C09": "density matrix is the Gibbs state - pure numerics. " + NA_COMMON,
 "C10": "eigenbasis field operators obey the CAR - pure linear algebra (FieldOperator::compute reads comm.rank() only for printing). " + NA_COMMON,
 "C11": "symmetry, sum rules, tau/frequency duality of G - pure numerics. " + NA_COMMON,
 "C12": "Wick's theorem for quadratic models - pure numerics. " + NA_COMMON,
 "C14": "susceptibility equals its definition - pure numerics. " + NA_COMMON,
 "C15": "vertex storage is a deterministic cache indexed by integers; no eviction, concurrency or timing. " + NA_COMMON,
 "C18": "index bookkeeping bijection / relabelling invariance - pure bookkeeping. " + NA_COMMON,
 "C19": "block truncation error bound - pure numerics. " + NA_COMMON,
 "C20": "lattice input validation - call histories on a single-threaded object with no I/O, timing or injected fault; model-based testing would decide it, a simulator has nothing to schedule or fail. " + NA_COMMON,
}

def check(pid, text, note, technique, ref):
    return {
        "property_id": pid,
        "quick_cmd": "python3 tools/run_check.py %s quick" % pid,
        "thorough_cmd": "python3 tools/run_check.py %s thorough" % pid,
        "evidence_file": "evidence/%s.json" % pid,
        "replay_cmd_template": "python3 tools/run_check.py %s --replay {path}" % pid,
        "engine": "simworld",
        "level_claimed": {"category": "exploration", "text": text, "design_ref": ref},
        "level_note": note,
        "technique": technique,
    }

TRUST = ("Trusted base: SimMPI (my model of MPI-3.1 point-to-point matching, collectives and boost::mpi 1.83 request semantics, "
         "cross-checked against real Open MPI by tools/fidelity_realmpi.sh) and SimGOMP replace boost::mpi/Open MPI/libgomp; all of pomerol, "
         "Eigen and boost::serialization run as real code built from /repo's working tree. Sampling, not proof.")

M = {
 "version": 1,
 "setup_cmd": "python3 tools/setup.py",
 "hooks": {
   "guard": "POMEROL_VERIF",
   "enable": "no source hooks are needed: checks compile /repo/src against the shadow header sim/shadow/boost/mpi.hpp (include-path seam) and link SimGOMP instead of libgomp (link-time seam); -DPOMEROL_VERIF is passed to the compiler but no code in /repo tests it",
   "baseline_off_cmd": "cmake --build /repo/_build -j16 && OMPI_ALLOW_RUN_AS_ROOT=1 OMPI_ALLOW_RUN_AS_ROOT_CONFIRM=1 ctest --test-dir /repo/_build -j8 --timeout 900",
   "source_commits": [],
   "add_only": True,
 },
 "engines": [
   {"name": "simworld", "path": "sim/", "serves_properties": ["C06", "C13", "C16", "C17"],
    "kind_free_text": "deterministic simulator: P MPI ranks as ucontext coroutines in one process, seeded scheduler (uniform / discrete-event virtual time / PCT priorities), simulated MPI (shadow <boost/mpi.hpp>) with latency, reordering, eager/rendezvous, stalls, collective liberties; simulated OpenMP runtime (GOMP_parallel) with seeded team size and thread order; choice-log replay and ddmin minimisation"},
 ],
 "checks": [
   check("C06",
         "Seeded search over schedules and fault sequences: the real ED workflow (Hamiltonian prepare/compute incl. repeated calls, GF, TwoParticleGF::compute, 1-3 consecutive container computeAll calls split/unsplit with/without clearing) runs SPMD on 1..16 simulated ranks with 1..16 simulated OpenMP threads; every rank's eigen-data, G, returned chi tables (incl. boundary-sized and duplicate-point frequency lists) and chi-from-terms are compared with the 1-rank/1-thread reference, and deadlock/hang/collective-mismatch/step-budget/cpu-spin detectors decide termination; a ThreadSanitizer probe and a helgrind probe (single inline rank, the OpenMP team on real threads) cover data races between loop iterations, which serialised logical threads cannot show. Exploration level: every run is one exactly replayable schedule; ~20 000 distinct schedules per quick run, ~5*10^5 per thorough run.",
         TRUST, "deterministic simulation (seeded scheduler + simulated MPI/OpenMP) with differential oracle against 1 rank / 1 thread", "DESIGN.md §3.2"),
   check("C13",
         "Seeded request histories (fill/prepareAll/computeAll split+unsplit/on-demand lookup/prepare+compute of an element/evaluate) run SPMD on 1..4 simulated ranks under seeded schedules; after every operation each evaluable listed quadruple is compared with a directly constructed TwoParticleGF, the exchange identities are checked between entries, and a small status model states which elements must be evaluable.",
         TRUST, "deterministic simulation of SPMD container histories with reference-model oracle (direct TwoParticleGF + status model)", "DESIGN.md §3.3"),
   check("C16",
         "The real MPIMaster/MPIWorker/mpi_skel::run execute over simulated MPI on 1..16 ranks, 1..4 rounds, 0..40 jobs under seeded interleavings, latencies, stalls, eager/rendezvous sends; the recorded history is checked for exactly-once execution, agreement and truthfulness of the returned map and exit of every rank (deadlock/hang/step-budget detectors). Small configurations get a fixed share so that their interleaving space is sampled densely; no exhaustiveness is claimed.",
         TRUST, "deterministic simulation: seeded schedule/fault search over the real dispatcher on simulated MPI, history checker", "DESIGN.md §3.1"),
   check("C17",
         "ASan+UBSan stay live inside every simulated run of the dispatcher, parallel-workflow, container-history and workflow-history harnesses (1..16 ranks); simulated MPI reads and writes every caller buffer with a plain memcpy at the address and length the caller gave, so wrong counts, null or dead buffers and non-owner code paths become visible; runs in which ranks disagree about the size of a buffer that crosses MPI (collective-count-mismatch, truncation) count as violations too; a clang-built ASan/UBSan part covers complex compound assignments that g++'s ASan pass leaves uninstrumented, and the whole workflow also runs on one inline rank with OpenMP teams of real threads under ThreadSanitizer and helgrind (a data race is undefined behaviour); the thorough tier adds a valgrind-memcheck subsample for uninitialised reads. Scoped to the sampled model family and call histories.",
         TRUST + " Sanitizer coverage is that of gcc-12 ASan/UBSan; uninitialised reads only via a valgrind subsample in the thorough tier.",
         "deterministic simulation with sanitizers live in every simulated run (memory faults at MPI buffer boundaries made observable)", "DESIGN.md §3.4"),
 ],
 "not_applicable": [{"property_id": k, "reason": v} for k, v in sorted(NA.items())],
 "notes": "See DESIGN.md. Known findings / fixed defects: known_findings.txt. Seeded breaking changes used to test the checks: seeded/.",
}
json.dump(M, open(os.path.join(HERE, "MANIFEST.json"), "w"), indent=1)
print("MANIFEST.json written")
