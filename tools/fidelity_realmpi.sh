#!/bin/bash
# Cross-check of SimMPI's rules against the real boost::mpi 1.83 / Open MPI: the scenario bodies of harness/simtest.cpp
# (posting order vs wildcard, unexpected queue, cancel semantics, destroyed requests, self-send, split, reduce, serialised
# payloads, non-overtaking, isend/irecv/iprobe, OpenMP loop) are compiled against the REAL library and run under mpiexec.
# Every scenario that SimMPI accepts for all schedules must also pass on the real thing. Skipped (exit 0) without mpiexec.
set -u
cd "$(dirname "$0")/.."
export OMPI_ALLOW_RUN_AS_ROOT=1 OMPI_ALLOW_RUN_AS_ROOT_CONFIRM=1
command -v mpiexec >/dev/null 2>&1 || { echo "[fidelity] mpiexec not available: skipped"; exit 0; }
mkdir -p build/realmpi
g++ -std=c++17 -O1 -fopenmp -DREAL_MPI -Isim -Iharness -I/usr/lib/x86_64-linux-gnu/openmpi/include harness/simtest.cpp \
    -o build/realmpi/simtest_real -lboost_mpi -lboost_serialization -lmpi_cxx -lmpi 2> build/realmpi/build.log || { echo "[fidelity] build failed:"; tail -20 build/realmpi/build.log; exit 1; }
fail=0; n=0
while read -r k P name; do
    out=$(timeout 60 mpiexec --oversubscribe -np "$P" build/realmpi/simtest_real "$k" 2>&1 < /dev/null); rc=$?
    n=$((n+1))
    if [ $rc -ne 0 ]; then fail=$((fail+1)); echo "FAIL (rc=$rc) scenario $k '$name' on real MPI:"; echo "$out" | tail -5; else echo "$out" | grep -E "^PASS" ; fi
done < <(build/realmpi/simtest_real --list)
echo "[fidelity] $n scenarios on real Open MPI, $fail failed"
[ $fail -eq 0 ] || exit 1

# ---- part 2: the documented workflow on the real stack (library from /repo/_build, rebuilt first), every rank compared with
# its own MPI_COMM_SELF reference. These are the configurations that failed on the unchanged tree (zeros, throws, hang).
if [ -d /repo/_build ]; then
    cmake --build /repo/_build -j16 > build/realmpi/cmake.log 2>&1 || { echo "[fidelity] cmake --build /repo/_build failed"; tail -5 build/realmpi/cmake.log; exit 1; }
    g++ -std=c++11 -fopenmp -O1 -I/repo/include -I/repo/_build/include -I/usr/include/eigen3 -I/usr/lib/x86_64-linux-gnu/openmpi/include harness/realmpi_workflow.cpp \
        -o build/realmpi/realmpi_workflow -L/repo/_build -lpomerol -Wl,-rpath,/repo/_build -lboost_mpi -lboost_serialization -lmpi_cxx -lmpi 2> build/realmpi/build2.log || { echo "[fidelity] workflow driver build failed"; tail -20 build/realmpi/build2.log; exit 1; }
    wf_fail=0; wf_n=0
    for cfg in "1 1 1 0" "2 1 1 0" "2 2 1 0" "2 3 1 0" "2 3 0 0" "3 2 1 0" "4 2 1 0" "3 3 1 1" "5 3 1 1" "4 3 0 1" "7 2 1 1"; do
        set -- $cfg
        out=$(timeout 120 mpiexec --oversubscribe -np "$1" build/realmpi/realmpi_workflow "$2" "$3" "$4" 2>&1 < /dev/null); rc=$?
        wf_n=$((wf_n+1))
        if [ $rc -ne 0 ]; then wf_fail=$((wf_fail+1)); echo "FAIL (rc=$rc) real-MPI workflow np=$1 K=$2 split=$3 model=$4"; echo "$out" | tail -4; else echo "$out" | grep -E "^PASS"; fi
    done
    echo "[fidelity] $wf_n workflow configurations on real Open MPI, $wf_fail failed"
    [ $wf_fail -eq 0 ] || exit 1
fi
exit 0
