#!/bin/bash
# Cross-check of SimMPI's rules against the real boost::mpi 1.83 / Open MPI: the scenario bodies of harness/simtest.cpp
# (posting order vs wildcard, unexpected queue, cancel semantics, destroyed requests, self-send, split, reduce, serialised
# payloads, non-overtaking, isend/irecv/iprobe, OpenMP loop) are compiled against the REAL library and run under mpiexec.
# Every scenario that SimMPI accepts for all schedules must also pass on the real thing. Skipped (exit 0) without mpiexec.
set -u
cd "$(dirname "$0")/.."
export OMPI_ALLOW_RUN_AS_ROOT=1 OMPI_ALLOW_RUN_AS_ROOT_CONFIRM=1
command -v mpiexec >/dev/null 2>&1 || { echo "[fidelity] mpiexec not available: skipped"; exit 0; }
mkdir -p build/realmpi
g++ -std=c++17 -O1 -fopenmp -DREAL_MPI -Isim -Iharness -I/usr/lib/x86_64-linux-gnu/openmpi/include harness/simtest.cpp \
    -o build/realmpi/simtest_real -lboost_mpi -lboost_serialization -lmpi_cxx -lmpi 2> build/realmpi/build.log || { echo "[fidelity] build failed:"; tail -20 build/realmpi/build.log; exit 1; }
fail=0; n=0
while read -r k P name; do
    out=$(timeout 60 mpiexec --oversubscribe -np "$P" build/realmpi/simtest_real "$k" 2>&1 < /dev/null); rc=$?
    n=$((n+1))
    if [ $rc -ne 0 ]; then fail=$((fail+1)); echo "FAIL (rc=$rc) scenario $k '$name' on real MPI:"; echo "$out" | tail -5; else echo "$out" | grep -E "^PASS" ; fi
done < <(build/realmpi/simtest_real --list)
echo "[fidelity] $n scenarios on real Open MPI, $fail failed"
[ $fail -eq 0 ]
