#!/usr/bin/env python3
"""Determinism self-test: every harness, many seeds, each executed twice in different processes, at different worker
counts and in both build variants; event hashes and verdicts must agree. Exit 0 iff they all do.
  selftest.py --quick   (setup: ~600 seeds x 2 per harness)      selftest.py   (full: 2000+ seeds x 2 per harness and variant)"""
import os, sys, time
sys.path.insert(0, os.path.dirname(os.path.abspath(__file__)))
import vlib, build as buildmod

def main():
    quick = "--quick" in sys.argv
    n = {"c16_dispatch": 3000 if quick else 20000, "c06_parallel": 300 if quick else 2000, "c13_container": 400 if quick else 2000, "c17_workflow": 300 if quick else 2000}
    bad = 0
    for variant in (("plain",) if quick else ("plain", "san")):
        bins = buildmod.build(variant, verbose=False)
        for h, cnt in n.items():
            t0 = time.time()
            a, ca = vlib.run_batch(bins[h], 777000000, cnt, 300, nworkers=16)
            b, cb = vlib.run_batch(bins[h], 777000000, cnt, 300, nworkers=5)   # other worker count => other seed-to-process mapping
            ha = {r["seed"]: (r["hash"], r["verdict"]) for r in a}
            hb = {r["seed"]: (r["hash"], r["verdict"]) for r in b}
            common = set(ha) & set(hb)
            diff = [s for s in common if ha[s] != hb[s]]
            print("[selftest] %s/%s: %d seeds executed twice (16 vs 5 workers), %d mismatches, %d/%d crashes, %.1fs" % (variant, h, len(common), len(diff), len(ca), len(cb), time.time() - t0))
            if diff or len(common) < cnt * 0.9:
                bad += 1
                print("   MISMATCH seeds: %s" % diff[:10])
    if not quick:
        # the schedule must not depend on the build variant either (no floating-point result feeds a scheduling decision)
        bp, bs = buildmod.build("plain", verbose=False), buildmod.build("san", verbose=False)
        for h, cnt in (("c16_dispatch", 5000), ("c13_container", 500), ("c06_parallel", 500)):
            a, _ = vlib.run_batch(bp[h], 555000000, cnt, 300)
            b, _ = vlib.run_batch(bs[h], 555000000, cnt, 600)
            ha = {r["seed"]: (r["hash"], r["verdict"]) for r in a}; hb = {r["seed"]: (r["hash"], r["verdict"]) for r in b}
            common = set(ha) & set(hb); diff = [x for x in common if ha[x] != hb[x]]
            print("[selftest] plain vs san %s: %d seeds, %d mismatches" % (h, len(common), len(diff)))
            if diff or len(common) < cnt * 0.9: bad += 1; print("   MISMATCH seeds: %s" % diff[:10])
    print("[selftest] %s" % ("FAILED" if bad else "ok"))
    return 1 if bad else 0

if __name__ == "__main__":
    sys.exit(main())
