#!/usr/bin/env python3
"""Re-runs every recorded change against the current checks and records the outcome in sensitivity_results.json:
 - mutants/*.patch (own mutants, negative controls, reverse patches of the fix: commits)
 - seeded/<id>/patch.diff (independently written breaking changes) and, where present, seeded/<id>/part{A,B}.diff
   (the halves of a pair of cooperating edits: expected quiet unless listed in HALVES_THAT_BREAK)
Each change is applied to a scratch worktree of /repo (removed afterwards) and the quick checks named for it run at
VERIF_SCALE (default 0.3). Exit 0 iff every breaking change is caught and every control is quiet."""
import os, sys, json, glob, time
VERIF = os.path.dirname(os.path.dirname(os.path.abspath(__file__)))
sys.path.insert(0, os.path.join(VERIF, "tools"))
import sensitivity

# halves that are NOT harmless on their own (see DESIGN.md §8, 5): correct alarms, not controls
HALVES_THAT_BREAK = {"S38_c16_surplus_release_vs_boss_last/partA.diff"}

def main():
    scale = float(os.environ.get("VERIF_SCALE", "0.3"))
    only = sys.argv[1:]
    items = []
    for m in json.load(open(os.path.join(VERIF, "mutants", "mutants.json"))):
        items.append((m["id"], os.path.join(VERIF, "mutants", m["id"] + ".patch"), m["expected_caught_by"], "quiet" if m.get("negative_control") else "caught"))
    for d in sorted(glob.glob(os.path.join(VERIF, "seeded", "*"))):
        mp = os.path.join(d, "meta.json")
        if not os.path.exists(mp): continue
        meta = json.load(open(mp)); sid = os.path.basename(d)
        props = [meta["property"]] if isinstance(meta["property"], str) else meta["property"]
        items.append((sid, os.path.join(d, "patch.diff"), props, "caught"))
        for part in ("partA.diff", "partB.diff"):
            if os.path.exists(os.path.join(d, part)):
                key = sid + "/" + part
                items.append((key, os.path.join(d, part), props, "caught" if key in HALVES_THAT_BREAK else "quiet"))
    # behaviour-preserving refactorings written by independent agents (refactors/<id>/patch.diff): every check must stay quiet
    for d in sorted(glob.glob(os.path.join(VERIF, "refactors", "*"))):
        if os.path.exists(os.path.join(d, "patch.diff")):
            items.append(("refactors/" + os.path.basename(d), os.path.join(d, "patch.diff"), ["C16", "C06", "C13", "C17"], "quiet"))
    if only: items = [i for i in items if any(i[0].startswith(o) or os.path.basename(i[0]).startswith(o) for o in only)]
    out_path = os.path.join(VERIF, "sensitivity_results.json")
    results = json.load(open(out_path)) if os.path.exists(out_path) and only else {}
    bad = 0
    for name, patch, props, expect in items:
        t0 = time.time()
        r = sensitivity.run_mutant(name, patch, props, scale)
        caught = sorted(c for c, v in r.items() if isinstance(v, dict) and v.get("exit") == 1)
        inconclusive = sorted(c for c, v in r.items() if isinstance(v, dict) and v.get("exit") not in (0, 1))
        ok = (bool(caught) if expect == "caught" else not caught) and not inconclusive and "apply" not in r
        bad += not ok
        results[name] = dict(expected=expect, checks_run=props, caught_by=caught, inconclusive=inconclusive,
                             classes={c: v.get("classes") for c, v in r.items() if isinstance(v, dict)}, ok=ok,
                             apply_error=r.get("apply"), scale=scale, wall_s=round(time.time() - t0, 1))
        print("%-58s expected %-6s -> %-28s %s" % (name, expect, ("caught by " + ",".join(caught)) if caught else "quiet", "ok" if ok else "*** UNEXPECTED ***")); sys.stdout.flush()
        json.dump(results, open(out_path, "w"), indent=1, sort_keys=True)
    print("%d changes, %d unexpected" % (len(items), bad))
    return 1 if bad else 0

if __name__ == "__main__":
    sys.exit(main())
