#!/usr/bin/env python3
"""Builds pomerol from the *current working tree* of $REPO_DIR (default /repo) against the shadow
<boost/mpi.hpp>, plus the simulator and the harnesses.  Objects are cached by content hash of
(source, every file under $REPO/include, simulator headers, flags) - never by mtime.

usage: build.py [--variant san|plain|vg] [--complex] [--repo DIR] [harness ...]
"""
import os, sys, hashlib, subprocess, glob, argparse, concurrent.futures, shutil, time

VERIF = os.path.dirname(os.path.dirname(os.path.abspath(__file__)))
CXX = os.environ.get("VERIF_CXX", "g++")

# EIGEN_DONT_PARALLELIZE: Eigen's own OpenMP GEMM spin-waits between threads and cannot run on SimGOMP's serialised logical
# threads; it is only reachable for blocks larger than about 47x47 (beyond the models explored) - see sim/simgomp.cpp
COMMON = ["-fopenmp", "-DNDEBUG", "-DPOMEROL_VERIF", "-DEIGEN_DONT_PARALLELIZE", "-Wno-unused-local-typedefs", "-w", "-fPIC"]
VARIANTS = {
    # as shipped (-O2 -g -DNDEBUG -fopenmp) plus sanitizers; O1 keeps ASan reports precise and the build fast
    "san":   ["-O1", "-g1", "-fsanitize=address,undefined", "-fno-omit-frame-pointer"],
    "plain": ["-O2", "-g1"],
    "vg":    ["-O1", "-g", "-DSIM_VALGRIND"],
    "cov":   ["-O0", "-g", "--coverage"],   # development aid: line coverage of the library by the harnesses (gcov)
    # ThreadSanitizer probe of the OpenMP region: SimGOMP runs the team on real threads, a single rank runs inline
    "tsan":  ["-O1", "-g", "-fsanitize=thread", "-DSIM_GOMP_THREADS"],
    # the same real-thread team without compiler instrumentation, for valgrind's binary-level race detectors (helgrind / drd):
    # they also see the stores g++'s -fsanitize=thread leaves uninstrumented (a store that is the left-hand side of a call)
    "thr":   ["-O1", "-g", "-DSIM_GOMP_THREADS"],
    # ASan/UBSan of clang++: g++'s AddressSanitizer pass does not instrument accesses to the real/imaginary part of a complex
    # lvalue (std::complex compound assignment `v[i] += z`), clang's does. Compiled WITHOUT -fopenmp (clang lowers OpenMP to
    # libomp's __kmpc_* interface, which SimGOMP does not replace): the pragmas are ignored, the regions run serially.
    "sancl": ["-O1", "-g1", "-fsanitize=address,undefined", "-fno-omit-frame-pointer"],
}
CXX_OF = {"sancl": os.environ.get("VERIF_CLANGXX", "clang++")}
NO_OPENMP = {"sancl"}
LINK = {
    "san":   ["-fsanitize=address,undefined"],
    "plain": [],
    "vg":    [],
    "cov":   ["--coverage"],
    "tsan":  ["-fsanitize=thread"],
    "thr":   [],
    "sancl": ["-fsanitize=address,undefined"],
}
HARNESSES = ["c16_dispatch", "c06_parallel", "c13_container", "c17_workflow", "c06_omp_tsan", "omp_threads_selftest", "simtest"]


def sha(*parts):
    h = hashlib.sha256()
    for p in parts:
        h.update(p if isinstance(p, bytes) else p.encode())
        h.update(b"\0")
    return h.hexdigest()[:20]


def tree_hash(root, pats=("*",)):
    h = hashlib.sha256()
    for dp, dn, fn in sorted(os.walk(root)):
        dn.sort()
        for f in sorted(fn):
            p = os.path.join(dp, f)
            h.update(os.path.relpath(p, root).encode()); h.update(b"\0")
            with open(p, "rb") as fh:
                h.update(fh.read())
            h.update(b"\0")
    return h.hexdigest()


def run(cmd):
    r = subprocess.run(cmd, stdout=subprocess.PIPE, stderr=subprocess.STDOUT, text=True)
    return r.returncode, r.stdout


def compile_one(job):
    src, obj, flags, cxx = job
    if os.path.exists(obj):
        return (src, 0, "", True)
    tmp = obj + ".tmp%d" % os.getpid()
    rc, out = run([cxx] + flags + ["-c", src, "-o", tmp])
    if rc == 0:
        os.replace(tmp, obj)
    return (src, rc, out, False)


def build(variant="san", repo=None, harnesses=None, complex_=False, verbose=True):
    repo = repo or os.environ.get("REPO_DIR", "/repo")
    harnesses = harnesses or [h for h in HARNESSES if os.path.exists(os.path.join(VERIF, "harness", h + ".cpp"))]
    tag = variant + ("-cx" if complex_ else "")
    # the build directory is keyed by the repo path too so that scratch copies never mix with /repo
    bdir = os.path.join(VERIF, "build", tag + ("" if os.path.realpath(repo) == "/repo" else "-" + sha(os.path.realpath(repo))[:8]))
    odir = os.path.join(bdir, "obj")
    gen = os.path.join(bdir, "gen", "pomerol")
    os.makedirs(odir, exist_ok=True)
    os.makedirs(gen, exist_ok=True)
    fi = "#ifndef __INCLUDE_FIRST_INCLUDE_H_a83f82k\n#define POMEROL_VERSION \"1.3\"\n#define POMEROL_USE_OPENMP\n%s#define POMEROL_CXX11\n#endif\n" % (
        "#define POMEROL_COMPLEX_MATRIX_ELEMENTS\n" if complex_ else "")
    fip = os.path.join(gen, "first_include.h")
    if not os.path.exists(fip) or open(fip).read() != fi:
        open(fip, "w").write(fi)
    inc = ["-I" + os.path.join(VERIF, "sim", "shadow"), "-I" + os.path.join(repo, "include"), "-I" + os.path.join(bdir, "gen"),
           "-I/usr/include/eigen3", "-I" + os.path.join(VERIF, "sim"), "-I" + os.path.join(VERIF, "harness")]
    cxx = CXX_OF.get(variant, CXX)
    vflags = VARIANTS[variant] + [f for f in COMMON if not (variant in NO_OPENMP and f == "-fopenmp")]
    inc_hash = tree_hash(os.path.join(repo, "include")) + tree_hash(os.path.join(VERIF, "sim", "shadow")) + \
        sha(open(os.path.join(VERIF, "sim", "sim.hpp"), "rb").read()) + sha(fi)
    hh = tree_hash(os.path.join(VERIF, "harness")) if os.path.isdir(os.path.join(VERIF, "harness")) else ""
    jobs, lib_objs, sim_objs, h_objs = [], [], [], {}
    for src in sorted(glob.glob(os.path.join(repo, "src", "**", "*.cpp"), recursive=True)):
        flags = ["-std=c++11"] + vflags + inc
        key = sha(open(src, "rb").read(), inc_hash, " ".join(flags), cxx)
        obj = os.path.join(odir, "lib_%s-%s.o" % (os.path.basename(src)[:-4], key))
        jobs.append((src, obj, flags, cxx)); lib_objs.append(obj)
    for src in [os.path.join(VERIF, "sim", "sim.cpp"), os.path.join(VERIF, "sim", "simgomp.cpp")]:
        flags = ["-std=c++17"] + vflags + inc
        key = sha(open(src, "rb").read(), inc_hash, " ".join(flags), cxx)
        obj = os.path.join(odir, "sim_%s-%s.o" % (os.path.basename(src)[:-4], key))
        jobs.append((src, obj, flags, cxx)); sim_objs.append(obj)
    for h in harnesses:
        src = os.path.join(VERIF, "harness", h + ".cpp")
        flags = ["-std=c++17"] + vflags + inc
        key = sha(open(src, "rb").read(), inc_hash, hh, " ".join(flags), cxx)
        obj = os.path.join(odir, "h_%s-%s.o" % (h, key))
        jobs.append((src, obj, flags, cxx)); h_objs[h] = obj
    t0 = time.time()
    failed = []
    with concurrent.futures.ThreadPoolExecutor(max_workers=int(os.environ.get("VERIF_JOBS", "16"))) as ex:
        for src, rc, out, cached in ex.map(compile_one, jobs):
            if rc != 0:
                failed.append((src, out))
    if failed:
        for src, out in failed:
            sys.stderr.write("BUILD FAILED: %s\n%s\n" % (src, out[-6000:]))
        raise SystemExit(3)
    # prune stale objects
    # only stale versions of the translation units compiled in THIS call are removed (another call may have built other harnesses)
    keep = set(lib_objs) | set(sim_objs) | set(h_objs.values())
    names = set(os.path.basename(f).rsplit("-", 1)[0] for f in keep)
    for f in glob.glob(os.path.join(odir, "*.o")):
        if f not in keep and os.path.basename(f).rsplit("-", 1)[0] in names:
            try: os.remove(f)
            except OSError: pass
    bins = {}
    for h, ho in h_objs.items():
        exe = os.path.join(bdir, h)
        lkey = sha(*(sorted(lib_objs) + sim_objs + [ho] + LINK[variant]))
        stamp = exe + ".key"
        if not (os.path.exists(exe) and os.path.exists(stamp) and open(stamp).read() == lkey):
            # linked WITHOUT -fopenmp/-lgomp: SimGOMP provides the OpenMP runtime entry points
            rc, out = run([cxx] + LINK[variant] + [ho] + lib_objs + sim_objs + ["-lboost_serialization", "-lpthread", "-o", exe])
            if rc != 0:
                sys.stderr.write("LINK FAILED: %s\n%s\n" % (h, out[-6000:]))
                raise SystemExit(3)
            open(stamp, "w").write(lkey)
        bins[h] = exe
    if verbose:
        sys.stderr.write("[build] variant=%s repo=%s %d objects, %.1fs -> %s\n" % (tag, repo, len(jobs), time.time() - t0, bdir))
    return bins


if __name__ == "__main__":
    ap = argparse.ArgumentParser()
    ap.add_argument("--variant", default="san")
    ap.add_argument("--complex", action="store_true")
    ap.add_argument("--repo", default=None)
    ap.add_argument("harness", nargs="*")
    a = ap.parse_args()
    b = build(a.variant, a.repo, a.harness or None, a.complex)
    for k, v in b.items():
        print(k, v)
