#!/usr/bin/env python3
"""Replays every file under /verif/findings (minimised reproductions of the repaired defects, recorded on trees with the
corresponding fix reverted) against the current tree. On the repaired tree none of them may reproduce; a file that does
reproduce means the defect is back. Exit 0 iff none reproduces."""
import os, sys, glob, json, subprocess
VERIF = os.path.dirname(os.path.dirname(os.path.abspath(__file__)))
bad = 0
for f in sorted(glob.glob(os.path.join(VERIF, "findings", "*.json"))):
    pid = json.load(open(f))["property"]
    p = subprocess.run([sys.executable, os.path.join(VERIF, "tools", "run_check.py"), pid, "--replay", f], stdout=subprocess.PIPE, stderr=subprocess.PIPE, text=True)
    back = p.returncode != 0 or "VIOLATION" in p.stdout
    print("%-75s %s" % (os.path.basename(f), "REPRODUCES - the defect is back" if back else "does not reproduce (fixed)"))
    bad += back
sys.exit(1 if bad else 0)
