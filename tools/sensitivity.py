#!/usr/bin/env python3
"""Development aid: apply each patch of /verif/mutants (or /verif/seeded/*/patch.diff) to a scratch worktree of /repo
(outside /repo and /verif), run the quick checks against it (REPO_DIR override) and report which check catches it.
The scratch worktree and its build directory are removed afterwards.
usage: sensitivity.py [--scale S] [--checks C16,C06,...] [--seeded] [ids...]"""
import os, sys, json, subprocess, time, shutil, glob, argparse, tempfile
VERIF = os.path.dirname(os.path.dirname(os.path.abspath(__file__)))
sys.path.insert(0, os.path.join(VERIF, "tools"))
import build as buildmod

def run_mutant(name, patch, checks, scale):
    wt = tempfile.mkdtemp(prefix="sens_", dir="/tmp"); shutil.rmtree(wt)
    subprocess.check_call(["git", "-C", "/repo", "worktree", "add", "-q", "--detach", wt, "HEAD"])
    res = {}
    try:
        r = subprocess.run(["git", "-C", wt, "apply", patch], stdout=subprocess.PIPE, stderr=subprocess.STDOUT, text=True)
        if r.returncode != 0:
            return {"apply": "FAILED: " + r.stdout[-300:]}
        env = dict(os.environ, REPO_DIR=wt, VERIF_SCALE=str(scale), VERIF_OUT=os.path.join(VERIF, "build", "tmp", "sens_out"))
        for c in checks:
            t0 = time.time()
            p = subprocess.run([sys.executable, os.path.join(VERIF, "tools", "run_check.py"), c, "quick"], env=env, stdout=subprocess.PIPE, stderr=subprocess.PIPE, text=True)
            vio = [l for l in p.stdout.splitlines() if l.startswith("violation class=")]
            res[c] = dict(exit=p.returncode, wall=round(time.time() - t0, 1), classes=[v.split()[1].split("=", 1)[1] for v in vio][:4],
                          first=(vio[0][:260] if vio else (p.stdout.strip().splitlines()[-1][:200] if p.stdout.strip() else p.stderr[-300:])))
    finally:
        subprocess.call(["git", "-C", "/repo", "worktree", "remove", "--force", wt])
        for d in glob.glob(os.path.join(VERIF, "build", "*-" + buildmod.sha(os.path.realpath(wt))[:8])):
            shutil.rmtree(d, ignore_errors=True)
    return res

def main():
    ap = argparse.ArgumentParser()
    ap.add_argument("--scale", type=float, default=0.5)
    ap.add_argument("--checks", default="C16,C06,C13,C17")
    ap.add_argument("--seeded", action="store_true")
    ap.add_argument("--all-checks", action="store_true", help="run every check, not only the ones expected to catch the mutant")
    ap.add_argument("--keep-replays", default="", help="directory that receives the minimised replay files, one sub-directory per mutant")
    ap.add_argument("ids", nargs="*")
    a = ap.parse_args()
    items = []
    if a.seeded:
        for d in sorted(glob.glob(os.path.join(VERIF, "seeded", "*"))):
            mp = os.path.join(d, "meta.json")
            if os.path.exists(mp):
                m = json.load(open(mp)); items.append((os.path.basename(d), os.path.join(d, "patch.diff"), [m.get("property")] if isinstance(m.get("property"), str) else m.get("property", []), False))
    else:
        for m in json.load(open(os.path.join(VERIF, "mutants", "mutants.json"))):
            items.append((m["id"], os.path.join(VERIF, "mutants", m["id"] + ".patch"), m["expected_caught_by"], m.get("negative_control", False)))
    if a.ids: items = [i for i in items if any(i[0].startswith(x) or os.path.basename(i[0]).startswith(x) for x in a.ids)]
    allc = a.checks.split(",")
    out = {}
    for name, patch, expected, neg in items:
        checks = allc if a.all_checks else [c for c in allc if c in expected] or allc
        sens_out = os.path.join(VERIF, "build", "tmp", "sens_out")
        shutil.rmtree(os.path.join(sens_out, "replays"), ignore_errors=True)
        r = run_mutant(name, patch, checks, a.scale)
        out[name] = r
        if a.keep_replays and os.path.isdir(os.path.join(sens_out, "replays")):
            dst = os.path.join(a.keep_replays, name.replace("/", "_"))
            os.makedirs(dst, exist_ok=True)
            for f in glob.glob(os.path.join(sens_out, "replays", "*.json")): shutil.copy(f, dst)
        caught = [c for c, v in r.items() if isinstance(v, dict) and v.get("exit") == 1]
        status = ("NEGATIVE-CONTROL " + ("quiet (good)" if not caught else "ALARM (bad): %s" % caught)) if neg else ("CAUGHT by %s" % ",".join(caught) if caught else "MISSED")
        print("%-36s %s" % (name, status)); sys.stdout.flush()
        for c, v in r.items():
            if isinstance(v, dict): print("      %s exit=%s %.0fs %s" % (c, v["exit"], v["wall"], v["first"][:200]))
            else: print("      %s %s" % (c, v))
    json.dump(out, open(os.path.join(VERIF, "build", "tmp", "sensitivity_%s.json" % ("seeded" if a.seeded else "mutants")), "w"), indent=1)

if __name__ == "__main__":
    main()
