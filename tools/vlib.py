"""Runner library: worker pool over harness binaries, aggregation, minimisation, replay gate, evidence."""
import os, sys, json, time, subprocess, tempfile, collections, re, shutil, hashlib

VERIF = os.path.dirname(os.path.dirname(os.path.abspath(__file__)))
sys.path.insert(0, os.path.join(VERIF, "tools"))
import build as buildmod

NWORKERS = int(os.environ.get("VERIF_WORKERS", "16"))
TMP = os.path.join(VERIF, "build", "tmp")

SANITIZER_RE = re.compile(r"(ERROR: AddressSanitizer[^\n]*|ERROR: UndefinedBehaviorSanitizer[^\n]*|runtime error:[^\n]*|AddressSanitizer:DEADLYSIGNAL)")


def classify_crash(rc, stderr_text):
    """violation class + detail for a worker that died; the class names the error kind and the innermost pomerol function"""
    err = stderr_text or ""
    m = None
    for m in re.finditer(r"ERROR: AddressSanitizer: ([a-zA-Z\-]+)[^\n]*", err):
        pass  # keep the last one (the one that killed the worker)
    tail = err[m.start():] if m else err[-8000:]
    frames = re.findall(r"#\d+ 0x[0-9a-f]+ in (.+?) (/\S+)", tail)
    top = topfn = ""
    for fn, loc in frames:
        if "/src/pomerol/" in loc or "/include/pomerol/" in loc or "mpi_dispatcher" in loc:
            topfn = "::".join(re.sub(r"\(.*", "", fn).split("::")[-2:]).replace("Pomerol::", "")
            top = "%s %s" % (re.sub(r"\(.*", "", fn), os.path.basename(loc)); break
    if m:
        return "asan:%s%s" % (m.group(1), ":" + topfn if topfn else ""), (m.group(0) + (" in " + top if top else ""))[:400]
    if "AddressSanitizer:DEADLYSIGNAL" in err or "AddressSanitizer" in err[-3000:]:
        return "asan:deadly-signal%s" % (":" + topfn if topfn else ""), ("AddressSanitizer deadly signal" + (" in " + top if top else ""))[:400]
    hg = re.search(r"==\d+== (Possible data race during (read|write)[^\n]*|Thread #\d+[^\n]*(lock|unlock|mutex|rwlock|cond)[^\n]*|[^\n]*lock order[^\n]*)", err)
    if hg:
        kind = "data-race" if hg.group(1).startswith("Possible data race") else "lock-misuse"
        fr = re.findall(r"==\d+==\s+(?:at|by) 0x[0-9A-F]+: (.+?) \((\S+?):(\d+)\)", err[hg.start():])
        where = ""
        for fn, f, ln in fr:
            if f.endswith((".cpp", ".h", ".hpp")) and any(t in fn for t in ("Pomerol::", "pMPI::")):
                where = "::".join(re.sub(r"\(.*", "", fn).split("::")[-2:]).replace("Pomerol::", ""); break
        return "helgrind:%s%s" % (kind, ":" + where if where else ""), hg.group(1)[:200] + (" in " + where if where else "")
    vg = re.search(r"==\d+== (Invalid (read|write)[^\n]*|Conditional jump or move depends on uninitialised value[^\n]*|Use of uninitialised value[^\n]*|Syscall param[^\n]*|Invalid free[^\n]*|Mismatched free[^\n]*|Source and destination overlap[^\n]*)", err)
    if rc == 88 or vg:
        kind = (vg.group(1).split(" of size")[0] if vg else "error").strip().replace(" ", "-").lower()[:50]
        fr = re.findall(r"==\d+==\s+(?:at|by) 0x[0-9A-F]+: (.+?) \((\S+?):(\d+)\)", err[vg.start():] if vg else err)
        where = ""
        for fn, f, ln in fr:
            if f.endswith((".cpp", ".h", ".hpp")) and not f.startswith(("stl_", "new_allocator", "alloc_traits")) and any(t in fn for t in ("Pomerol::", "pMPI::")):
                where = "::".join(re.sub(r"\(.*", "", fn).split("::")[-2:]).replace("Pomerol::", ""); break
        return "valgrind:%s%s" % (kind, ":" + where if where else ""), (vg.group(0) if vg else "valgrind error exit")[:300] + (" in " + where if where else "")
    ts = re.search(r"WARNING: ThreadSanitizer: ([a-z \-]+)", err)
    if rc == 66 or ts:
        kind = (ts.group(1).strip().replace(" ", "-") if ts else "report")
        fr = re.findall(r"#\d+ (.+?) (/\S+?):(\d+)", err[ts.start():] if ts else err)
        where = ""
        for fn, f, ln in fr:
            if "/src/pomerol/" in f or "/include/pomerol/" in f or "mpi_dispatcher" in f:
                where = "::".join(re.sub(r"\(.*", "", fn).split("::")[-2:]).replace("Pomerol::", "") + " " + os.path.basename(f) + ":" + ln; break
        return "tsan:%s%s" % (kind, ":" + where.split(" ")[0] if where else ""), ("ThreadSanitizer: %s%s" % (kind, " in " + where if where else ""))[:300]
    if rc == 79 or "SIM-WATCHDOG" in err[-2000:]:
        return "hang:cpu-spin", "a rank spun without making any MPI call until the per-run CPU budget was exhausted (livelock outside MPI)"
    if rc < 0:
        return "crash:signal%d" % (-rc), "worker killed by signal %d %s" % (-rc, top)
    return "crash:exit%d" % rc, "worker exited with status %d %s" % (rc, err[-300:].replace("\n", " | "))


class Worker:
    def __init__(self, exe, seed_start, seed_step, max_runs, time_limit, cfg, idx, extra=None, wrapper=None):
        self.exe, self.seed, self.step, self.left, self.tl, self.cfg, self.idx = exe, seed_start, seed_step, max_runs, time_limit, cfg, idx
        self.extra = extra or []
        self.wrapper = wrapper or []
        self.proc = None
        self.cur_seed = None
        self.errpath = os.path.join(TMP, "w%d_%d.err" % (os.getpid(), idx))
        self.t0 = time.time()
        self.restarts = 0
        self.recycles = 0

    def start(self):
        os.makedirs(TMP, exist_ok=True)
        remaining = self.tl - (time.time() - self.t0)
        if self.left <= 0 or remaining <= 0:
            return False
        cmd = self.wrapper + [self.exe, "--seed-start", str(self.seed), "--seed-step", str(self.step), "--max-runs", str(self.left), "--time-limit", "%.1f" % remaining] + self.extra
        if self.cfg:
            cmd += ["--cfg", self.cfg]
        self.err = open(self.errpath, "w")
        # errors="replace": a run with undefined behaviour may print bytes that are not UTF-8
        self.proc = subprocess.Popen(cmd, stdout=subprocess.PIPE, stderr=self.err, text=True, encoding="utf-8", errors="replace", bufsize=1)
        return True


VALGRIND = ["valgrind", "-q", "--error-exitcode=88", "--exit-on-first-error=yes", "--undef-value-errors=yes", "--num-callers=25", "--max-stackframe=4000000"]
# binary-level happens-before race detection over the real-thread OpenMP teams of the "thr" build (no compiler instrumentation)
HELGRIND = ["valgrind", "-q", "--tool=helgrind", "--error-exitcode=88", "--exit-on-first-error=yes", "--num-callers=25", "--history-level=approx", "--max-stackframe=4000000"]

def wrapper_for(v):
    """part["valgrind"]: True = memcheck, "helgrind" = helgrind, falsy = none"""
    return HELGRIND if v == "helgrind" else (VALGRIND if v else None)

def run_batch(exe, base_seed, nruns, time_limit, cfg="", nworkers=None, extra=None, on_result=None, wrapper=None, keep=True):
    """Runs seeds base_seed .. base_seed+nruns-1 (as many as fit in time_limit) over a pool of in-process-looping workers.
    Returns (results, crashes). A dead worker is attributed to the seed in progress and restarted on its remaining seeds."""
    import selectors
    nworkers = nworkers or NWORKERS
    nworkers = max(1, min(nworkers, nruns))
    sel = selectors.DefaultSelector()
    workers = []
    for w in range(nworkers):
        share = (nruns - w + nworkers - 1) // nworkers
        wk = Worker(exe, base_seed + w, nworkers, share, time_limit, cfg, w, extra, wrapper)
        if wk.start():
            sel.register(wk.proc.stdout, selectors.EVENT_READ, wk)
            workers.append(wk)
    results, crashes = [], []
    live = len(workers)
    while live:
        for key, _ in sel.select(timeout=1.0):
            wk = key.data
            line = wk.proc.stdout.readline()
            if line:
                if line.startswith("START "):
                    wk.cur_seed = int(line.split()[1]); wk.cur_cfg = ""
                elif line.startswith("CFG "):
                    wk.cur_cfg = line.split(" ", 2)[2].strip() if line.count(" ") >= 2 else ""
                elif line.startswith("RESULT "):
                    try:
                        r = json.loads(line[7:])
                    except Exception as e:
                        r = {"seed": wk.cur_seed, "verdict": "harness-output-garbled", "detail": line[:200], "cfg": "", "hash": "0", "stats": {}, "probes": {}, "ubsan": [], "sig": "", "nworlds": 0, "wall": 0}
                    if keep: results.append(r)
                    if on_result: on_result(r)
                    wk.seed = wk.cur_seed + wk.step
                    wk.left -= 1
                    wk.cur_seed = None
                continue
            # EOF: the worker ended
            sel.unregister(wk.proc.stdout)
            rc = wk.proc.wait()
            wk.err.close()
            if rc == 0 and wk.cur_seed is None and wk.left > 0 and wk.recycles < 500 and wk.start():
                wk.recycles += 1   # the worker ended early to shed leaked memory: continue on its remaining seeds
                sel.register(wk.proc.stdout, selectors.EVENT_READ, wk)
                continue
            if rc != 0 or wk.cur_seed is not None:
                err = open(wk.errpath, errors="replace").read()[-20000:]
                if wk.cur_seed is not None:
                    cls, det = classify_crash(rc, err)
                    crashes.append({"seed": wk.cur_seed, "verdict": cls, "detail": det, "rc": rc, "stderr": err[-6000:], "cfg": getattr(wk, "cur_cfg", "")})
                    wk.seed = wk.cur_seed + wk.step
                    wk.left -= 1
                    wk.cur_seed = None
                    wk.restarts += 1
                    if wk.restarts < 200 and wk.start():
                        sel.register(wk.proc.stdout, selectors.EVENT_READ, wk)
                        continue
                else:
                    crashes.append({"seed": None, "verdict": "harness-died", "detail": "worker exit %d outside a run: %s" % (rc, err[-300:]), "rc": rc, "stderr": err[-6000:]})
            live -= 1
    for wk in workers:
        try: os.remove(wk.errpath)
        except OSError: pass
    return results, crashes


WATCHDOG_SINGLE = {"c16_dispatch": 30}
CURRENT_WRAPPER = None   # set by the runner while it handles a part that runs under valgrind

def run_single(exe, seed, cfg=None, choices=None, default_choices=False, want_choices=False, want_trace=False, timeout=900, wrapper=None):
    """one run in a fresh process; returns a result dict (crash -> synthesized result)"""
    os.makedirs(TMP, exist_ok=True)
    cmd = (wrapper or CURRENT_WRAPPER or []) + [exe, "--seed-start", str(seed), "--max-runs", "1", "--watchdog", str(WATCHDOG_SINGLE.get(os.path.basename(exe), 900 if (cfg and "big=1" in cfg) else 150) * (20 if (wrapper or CURRENT_WRAPPER) else 1))]
    if cfg: cmd += ["--cfg", cfg]
    cf = None
    if choices is not None:
        cf = tempfile.NamedTemporaryFile("w", dir=TMP, suffix=".choices", delete=False)
        cf.write(" ".join(str(x) for x in choices)); cf.close()
        cmd += ["--choices-file", cf.name]
    elif default_choices:
        cmd += ["--replay-default"]
    if want_choices: cmd += ["--emit-choices"]
    if want_trace: cmd += ["--trace"]
    try:
        p = subprocess.run(cmd, stdout=subprocess.PIPE, stderr=subprocess.PIPE, text=True, encoding="utf-8", errors="replace", timeout=timeout)
        rc, out, err = p.returncode, p.stdout, p.stderr
    except subprocess.TimeoutExpired as e:
        rc, out, err = -9, "", "timeout"
    finally:
        if cf: os.remove(cf.name)
    seen_cfg = cfg or ""
    for line in out.splitlines():
        if line.startswith("CFG ") and line.count(" ") >= 2:
            seen_cfg = line.split(" ", 2)[2].strip()
        if line.startswith("RESULT "):
            try:
                r = json.loads(line[7:])
            except Exception:
                return {"seed": seed, "verdict": "harness-output-garbled", "detail": line[:200], "cfg": seen_cfg, "hash": "garbled", "stats": {}, "probes": {}, "ubsan": [], "sig": "", "stderr": err[-4000:], "choices": choices}
            r["stderr"] = err[-4000:]
            return r
    cls, det = classify_crash(rc, err)
    return {"seed": seed, "verdict": cls, "detail": det, "cfg": seen_cfg, "hash": "crash:" + cls, "stats": {}, "probes": {}, "ubsan": [], "sig": "", "stderr": err[-6000:], "choices": choices}


# ---- minimisation ------------------------------------------------------------------------------------------
FAULT_OFF = [("lat", "0"), ("rdv", "0"), ("lazy", "0"), ("stall", "0"), ("speeds", "0"), ("bwait", "0"), ("early", "100"), ("rshuf", "0"), ("oshuf", "0"),
             ("omp", "1"), ("pctd", "0"), ("work", "0"), ("pol", "0")]


def cfg_parse(s):
    d = collections.OrderedDict()
    for tok in s.split():
        if "=" in tok:
            k, v = tok.split("=", 1); d[k] = v
    return d


def cfg_str(d):
    return " ".join("%s=%s" % kv for kv in d.items())


def shrink_candidates_value(v):
    """smaller variants of a cfg value (ints and ,/; separated lists of ints; op lists separated by '|')"""
    out = []
    if v.startswith("grid:"):
        return ["0:0:0", "1:0:1,0:0:0", "grid:7", "grid:8:2"]
    if re.fullmatch(r"-?\d+", v):
        n = int(v)
        for c in (0, 1, n // 2, n - 1):
            if 0 <= c < n and str(c) not in out: out.append(str(c))
        return out
    for sep in ("|", ";", ","):
        if sep in v:
            parts = v.split(sep)
            for i in range(len(parts)):
                out.append(sep.join(parts[:i] + parts[i + 1:]))
            for i, p in enumerate(parts):
                for c in shrink_candidates_value(p)[:3]:
                    out.append(sep.join(parts[:i] + [c] + parts[i + 1:]))
            return out
    return out


def same_class(a, b):
    # restrict shrinking to one violation class (the part before any ':' detail is kept, e.g. asan:heap-buffer-overflow)
    return a == b


def minimise(exe, seed, first, workload_keys, classify=None, budget_runs=250, budget_s=120, log=None):
    """first = result dict of the failing run obtained with --emit-choices (has cfg + choices).
    Returns (cfg_str, choices, last_result, nruns)."""
    t0 = time.time()
    cls = first["verdict"]
    cfg = cfg_parse(first["cfg"])
    choices = first.get("choices")
    choices = list(choices) if choices is not None else None   # None: the run died before reporting its choice log -> schedule is re-derived from the seed
    runs = [0]

    def attempt(cfg_d, ch):
        if runs[0] >= budget_runs or time.time() - t0 > budget_s:
            return None
        runs[0] += 1
        r = run_single(exe, seed, cfg_str(cfg_d), choices=ch)
        got = classify(r) if classify else r["verdict"]
        return r if same_class(got, cls) else None

    best = first
    # (0) the all-default schedule
    r = attempt(cfg, [])
    if r:
        choices, best = [], r
    # (1) switch fault kinds off
    for k, off in FAULT_OFF:
        if k in cfg and cfg[k] != off:
            c2 = collections.OrderedDict(cfg); c2[k] = off
            r = attempt(c2, choices)
            if r: cfg, best = cfg_parse(r["cfg"]), r
    # (2) workload
    progress = True
    while progress and runs[0] < budget_runs:
        progress = False
        for k in workload_keys:
            if k not in cfg: continue
            for cand in shrink_candidates_value(cfg[k]):
                c2 = collections.OrderedDict(cfg); c2[k] = cand
                r = attempt(c2, choices)
                if r:
                    newcfg = cfg_parse(r["cfg"])
                    if cfg_str(newcfg) != cfg_str(cfg):
                        cfg, best, progress = newcfg, r, True
                        break
    # (3) schedule / fault trace: zero out and cut blocks of the choice log (ddmin style)
    if choices is None:
        r = attempt(cfg, [])
        if r: choices, best = [], r
    if choices:
        r = attempt(cfg, [])
        if r: choices, best = [], r
    n = 2
    while choices and runs[0] < budget_runs and time.time() - t0 < budget_s:
        size = max(1, len(choices) // n)
        changed = False
        for start in range(0, len(choices), size):
            blk = choices[start:start + size]
            if not any(blk): continue
            cand = choices[:start] + [0] * len(blk) + choices[start + size:]
            r = attempt(cfg, cand)
            if r:
                choices, best, changed = cand, r, True
        # cut trailing zeros (default beyond the end of the log)
        while choices and choices[-1] == 0: choices.pop()
        if size == 1: break
        if not changed: n = min(len(choices) or 1, n * 2)
        if n <= 0: break
    while choices and choices[-1] == 0: choices.pop()
    if log and choices is None: log("schedule kept as derived from the seed (the run dies before it can report its choice log)")
    if log: log("minimised in %d re-runs (%.1fs): cfg='%s' non-default choices=%d" % (runs[0], time.time() - t0, cfg_str(cfg), sum(1 for x in (choices or []) if x)))
    return cfg_str(cfg), choices, best, runs[0]


# ---- known findings ----------------------------------------------------------------------------------------
def load_known(pid):
    out = []
    p = os.environ.get("VERIF_KNOWN") or os.path.join(VERIF, "known_findings.txt")
    if not os.path.exists(p): return out
    for line in open(p):
        line = line.strip()
        m = re.match(r"finding:\s+property=(\S+)\s+class=(\S+)\s+match=(\S+)\s*(.*)", line)
        if m and m.group(1) == pid:
            out.append({"class": m.group(2), "match": m.group(3), "text": m.group(4)})
    return out


def match_known(known, verdict, cfg, detail):
    for k in known:
        if k["class"] == verdict and re.search(k["match"], cfg + " :: " + detail):
            return k
    return None


def write_json(path, obj):
    os.makedirs(os.path.dirname(path), exist_ok=True)
    tmp = path + ".tmp"
    with open(tmp, "w") as f:
        json.dump(obj, f, indent=1, sort_keys=False)
    os.replace(tmp, path)
