#!/usr/bin/env python3
"""Offline setup: build the simulator, the pomerol objects (plain + sanitised) and the harnesses from files on disk,
then run the simulator self-test (MPI semantics, detectors, determinism) in both variants."""
import os, sys, subprocess, time
sys.path.insert(0, os.path.dirname(os.path.abspath(__file__)))
import build as buildmod

def vlib_helgrind():
    import vlib
    return list(vlib.HELGRIND)

def main():
    t0 = time.time()
    os.makedirs(os.path.join(buildmod.VERIF, "evidence"), exist_ok=True)
    os.makedirs(os.path.join(buildmod.VERIF, "replays"), exist_ok=True)
    for variant in ("plain", "san"):
        bins = buildmod.build(variant)
        r = subprocess.run([bins["simtest"], "30"], stdout=subprocess.PIPE, stderr=subprocess.STDOUT, text=True)
        tail = r.stdout.strip().splitlines()[-1] if r.stdout.strip() else "(no output)"
        print("[setup] %s: %s" % (variant, tail))
        if r.returncode != 0:
            print(r.stdout[-4000:])
            return 1
    buildmod.build("plain", None, ["c06_parallel"], True)   # complex-matrix-element flavour (part of the C06 quick check)
    tb = buildmod.build("tsan", None, ["c06_omp_tsan", "c17_workflow", "omp_threads_selftest"])   # ThreadSanitizer probe of the OpenMP region (single inline rank, real threads)
    r = subprocess.run([tb["omp_threads_selftest"]], stdout=subprocess.PIPE, stderr=subprocess.STDOUT, text=True)
    print("[setup] tsan: %s" % (r.stdout.strip().splitlines()[-1] if r.stdout.strip() else "(no output)"))
    if r.returncode != 0:
        print(r.stdout[-4000:]); return 1
    # the same real-thread teams without instrumentation, for helgrind (second race detector of the C06 check); SimGOMP's own
    # thread-mode primitives (barrier, single, work-sharing loops, sections, critical) must be silent under it
    hb = buildmod.build("thr", None, ["c06_omp_tsan", "c17_workflow", "omp_threads_selftest"])
    r = subprocess.run(vlib_helgrind() + [hb["omp_threads_selftest"]], stdout=subprocess.PIPE, stderr=subprocess.STDOUT, text=True)
    print("[setup] helgrind: %s" % (r.stdout.strip().splitlines()[-1] if r.stdout.strip() else "(no output)"))
    if r.returncode != 0:
        print(r.stdout[-4000:]); return 1
    buildmod.build("vg", None, ["c17_workflow"])   # uninstrumented build for the valgrind-memcheck subsample of the C17 quick check
    buildmod.build("sancl", None, ["c17_workflow", "c06_parallel"])   # clang's ASan/UBSan flavour (part of the C17 quick check)
    r = subprocess.run([sys.executable, os.path.join(buildmod.VERIF, "tools", "selftest.py"), "--quick"])
    if r.returncode != 0:
        return 1
    print("[setup] done in %.0fs" % (time.time() - t0))
    return 0

if __name__ == "__main__":
    sys.exit(main())
