#!/usr/bin/env python3
"""run_check.py <property> quick|thorough      run the check for one property (exit 0 / 1 + VIOLATION line / 2 inconclusive)
   run_check.py <property> --replay <file>    re-execute a replay file in a fresh process

Every batch is a seeded search over schedules and fault sequences: seed -> (workload, fault switches, schedule).
The base seed comes from VERIF_SEED (default 1)."""
import os, sys, json, time, collections, re
sys.path.insert(0, os.path.dirname(os.path.abspath(__file__)))
import vlib, build as buildmod

VERIF = vlib.VERIF

COMPONENTS = {
    "real": ["pomerol library (all of /repo/src and /repo/include, built from the working tree)", "Eigen 3.4", "boost::serialization (pomerol's serialize() members run)", "boost bimap/shared_ptr/tuple etc."],
    "stub": ["boost::mpi + Open MPI -> SimMPI (sim/shadow/boost/mpi.hpp, sim/sim.cpp)", "libgomp -> SimGOMP (sim/simgomp.cpp)"],
}

# fault kinds: name -> stats key that counts how often it actually *fired*
FAULTS = collections.OrderedDict([
    ("message latency (delivery as a separately scheduled event)", "deliveries"),
    ("cross-source message reordering", "reordered"),
    ("message arrived before its receive was posted (unexpected queue)", "unexpected"),
    ("rendezvous send", "sends_rdv"),
    ("rendezvous send actually blocked", "rdv_blocked"),
    ("non-blocking send whose buffer was read at transfer time (lazy)", "lazy_isends"),
    ("rank stall", "stalls"),
    ("virtual job duration / work()", "work_calls"),
    ("broadcast root waited for all receivers", "bcast_root_waited"),
    ("reduce leaf left before the root", "reduce_left_early"),
    ("reduction order shuffled", "reduce_shuffled"),
    ("OpenMP region with simulated team", "omp_regions"),
    ("OpenMP logical thread order shuffled", "omp_shuffled"),
    ("idle-polling rank demoted (scheduler fairness)", "demotions"),
    ("communicator split", "splits"),
])

def P_of(r):
    m = re.search(r"\bP=(\d+)", r.get("cfg", ""))
    return int(m.group(1)) if m else 1

# ---- per-property definitions --------------------------------------------------------------------------------
def any_nonok(r):
    return r["verdict"] != "ok"

def c17_violation(r):
    v = r["verdict"]
    # collective-count-mismatch / truncation: the ranks disagree about the size of a buffer that crosses MPI - in real MPI the
    # receiver then reads or writes beyond what was transferred (undefined behaviour at the MPI level)
    return (v.startswith("asan") or v.startswith("valgrind") or v.startswith("tsan") or v.startswith("helgrind") or v.startswith("crash:signal") or bool(r.get("ubsan")) or v == "ubsan"
            or v in ("collective-count-mismatch", "truncation"))

# small dispatcher configurations whose interleaving space is sampled densely; the evidence reports how the number of
# distinct interleavings grows with the number of runs (a flat tail = the space reachable by the simulator is saturated)
SMALL_C16 = ["P=2 mode=0 G=1 J=1", "P=2 mode=0 G=1 J=2,1", "P=3 mode=0 G=1 J=2", "P=2 mode=3 G=1 J=2 root=0", "P=1 mode=0 G=1 J=2,0,1"]
SMALL_C16_THOROUGH = ["P=3 mode=0 G=1 J=3,2", "P=4 mode=1 G=2 J=1;2", "P=3 mode=2 G=1 J=3 root=1", "P=4 mode=0 G=1 J=3", "P=3 mode=5 G=1 J=2,2 root=0 pool=1,2"]

CHECKS = {
    "C16": {
        "parts": {
            "quick": [dict(harness="c16_dispatch", variant="plain", runs=500000, tl=90)] + [
                      dict(harness="c16_dispatch", variant="plain", runs=30000, tl=30, cfg=c, saturation=True) for c in SMALL_C16],
            "thorough": [dict(harness="c16_dispatch", variant="plain", runs=6000000, tl=1200),
                         dict(harness="c16_dispatch", variant="san", runs=600000, tl=600)] + [
                         dict(harness="c16_dispatch", variant="plain", runs=1000000, tl=200, cfg=c, saturation=True) for c in SMALL_C16 + SMALL_C16_THOROUGH],
        },
        "is_violation": any_nonok,
        "workload_keys": ["J", "G", "P", "mode", "root", "pool", "tids", "early", "cseed"],
        "rule": "one case = one seeded execution (workload + fault switches + schedule) of the real MPIMaster/MPIWorker/mpi_skel::run on simulated MPI; "
                "distinct = distinct interleaving signature (hash of the order of all scheduler/SimMPI events except unsuccessful polls and stalls, without step numbers - two runs that differ only in how often somebody polled in vain count once); non-trivial = at least 2 ranks, so that there is an interleaving at all",
    },
    "C06": {
        "parts": {
            "quick": [dict(harness="c06_parallel", variant="plain", runs=20000, tl=120),
                      # data races between iterations of the OpenMP loop: real threads under ThreadSanitizer, single inline rank
                      dict(harness="c06_omp_tsan", variant="tsan", runs=480, tl=60),
                      # the same real-thread teams, uninstrumented, under valgrind's helgrind: binary-level, so it also sees the
                      # stores g++'s ThreadSanitizer pass leaves out (a store that is the left-hand side of a call statement)
                      dict(harness="c06_omp_tsan", variant="thr", valgrind="helgrind", runs=320, tl=90, watchdog=3000),
                      # ... and the whole workflow (Green's functions, susceptibilities, vertex, ...) on real threads: races in
                      # parallel regions other than the two-particle frequency loop
                      dict(harness="c17_workflow", variant="tsan", runs=1000, tl=60),
                      # the other documented build flavour: complex matrix elements (hoppings carry a phase in this build)
                      dict(harness="c06_parallel", variant="plain", complex=True, runs=4000, tl=60)],
            "thorough": [dict(harness="c06_parallel", variant="plain", runs=400000, tl=1500, cfg="big=1"),
                         dict(harness="c06_parallel", variant="san", runs=40000, tl=500),
                         dict(harness="c06_parallel", variant="plain", complex=True, runs=40000, tl=400, cfg="big=1"),
                         dict(harness="c06_omp_tsan", variant="tsan", runs=30000, tl=600),
                         dict(harness="c06_omp_tsan", variant="thr", valgrind="helgrind", runs=12000, tl=600, watchdog=3000),
                         dict(harness="c17_workflow", variant="tsan", runs=40000, tl=400),
                         dict(harness="c17_workflow", variant="thr", valgrind="helgrind", runs=6000, tl=400, watchdog=3000)],
        },
        "is_violation": any_nonok,
        "workload_keys": ["G", "calls", "hrep", "quads", "freqs", "ops", "P", "model", "wf", "nosym", "beta", "mp"],
        "rule": "one case = one seeded execution of the whole ED workflow SPMD on P simulated ranks with T simulated OpenMP threads, compared with the 1-rank/1-thread reference; "
                "distinct = distinct interleaving signature (order of all events except unsuccessful polls and stalls); non-trivial = at least 2 ranks or at least 2 OpenMP threads",
    },
    "C13": {
        "parts": {
            "quick": [dict(harness="c13_container", variant="plain", runs=30000, tl=120)],
            "thorough": [dict(harness="c13_container", variant="plain", runs=600000, tl=1500),
                         dict(harness="c13_container", variant="san", runs=40000, tl=500)],
        },
        "is_violation": any_nonok,
        "workload_keys": ["ops", "P", "model", "beta"],
        "rule": "one case = one seeded request history executed SPMD on P simulated ranks under a seeded schedule, checked after every operation against directly constructed TwoParticleGF objects and the status model; "
                "distinct = distinct (history, interleaving signature); non-trivial = history contains a bulk computation or an on-demand element computation followed by an evaluation",
    },
    "C17": {
        "parts": {
            "quick": [dict(harness="c17_workflow", variant="san", runs=4000, tl=60),
                      dict(harness="c06_parallel", variant="san", runs=2000, tl=60),
                      dict(harness="c13_container", variant="san", runs=3000, tl=60),
                      dict(harness="c16_dispatch", variant="san", runs=40000, tl=40),
                      # a data race is undefined behaviour too: the whole workflow on one inline rank with OpenMP teams of 2..8
                      # REAL threads, under ThreadSanitizer and (uninstrumented build) under helgrind
                      dict(harness="c17_workflow", variant="tsan", runs=1500, tl=60),
                      dict(harness="c17_workflow", variant="thr", valgrind="helgrind", runs=320, tl=90, watchdog=3000),
                      # clang's ASan/UBSan: g++'s AddressSanitizer pass does not instrument accesses to the parts of a complex
                      # lvalue (`table[i] += z`), clang's does; compiled without OpenMP (regions run serially)
                      dict(harness="c17_workflow", variant="sancl", runs=3000, tl=60),
                      dict(harness="c06_parallel", variant="sancl", runs=1000, tl=40),
                      # binary-level subsample (valgrind memcheck over an uninstrumented build): uninitialised reads, and heap
                      # accesses of statement forms the compilers' sanitizer passes skip, inside OpenMP teams too
                      dict(harness="c17_workflow", variant="vg", valgrind=True, runs=300, tl=90, watchdog=3000)],
            "thorough": [dict(harness="c17_workflow", variant="san", runs=200000, tl=1200, cfg="big=1"),
                         dict(harness="c06_parallel", variant="san", runs=100000, tl=700),
                         dict(harness="c13_container", variant="san", runs=100000, tl=600),
                         dict(harness="c16_dispatch", variant="san", runs=1000000, tl=300),
                         dict(harness="c17_workflow", variant="san", complex=True, runs=40000, tl=400),
                         # uninitialised reads (invisible to ASan/UBSan): a subsample under valgrind memcheck, uninstrumented -O1 build
                         dict(harness="c17_workflow", variant="vg", valgrind=True, runs=3000, tl=600, watchdog=3000),
                         dict(harness="c06_parallel", variant="vg", valgrind=True, runs=1500, tl=600, watchdog=3000),
                         dict(harness="c17_workflow", variant="tsan", runs=60000, tl=600),
                         dict(harness="c17_workflow", variant="thr", valgrind="helgrind", runs=12000, tl=600, watchdog=3000),
                         dict(harness="c17_workflow", variant="sancl", runs=100000, tl=600, cfg="big=1"),
                         dict(harness="c06_parallel", variant="sancl", runs=40000, tl=400),
                         dict(harness="c13_container", variant="sancl", runs=40000, tl=300)],
        },
        "is_violation": c17_violation,
        "workload_keys": ["ops", "calls", "hrep", "quads", "freqs", "J", "G", "P", "model", "wf", "nosym", "beta", "mode", "mp"],
        "rule": "one case = one seeded simulated execution (workflow history or parallel workflow or container history or dispatcher rounds) with ASan+UBSan live; "
                "distinct = distinct (harness, workload + interleaving signature); non-trivial = the run executed at least one MPI collective or point-to-point transfer through instrumented memcpy, or an index-chasing loop (every workflow run does)",
    },
}

def ubsan_class(r):
    """class of a UBSan finding: kind + innermost pomerol function (stable across runs, specific enough to tell findings apart)"""
    u = r["ubsan"][0]
    kind = u.split(":")[0]
    m = re.search(r" in (\S+?)\(?[^ ]* (\S+)$", u)
    fn = ""
    m2 = re.search(r" in (.+) (/\S+:\d+)$", u)
    if m2: fn = "::".join(re.sub(r"\(.*", "", m2.group(1)).split("::")[-2:]).replace("Pomerol::", "")
    return "ubsan:%s%s" % (kind, ":" + fn if fn else "")


def watchdog_of(part):
    """per-run CPU budget (seconds) after which a run that never returns to the scheduler is declared hang:cpu-spin;
    normal runs take milliseconds (dispatcher) to a few seconds (sanitised 3-site chain)"""
    return part.get("watchdog", 30 if part["harness"] == "c16_dispatch" else 900 if "big=1" in part.get("cfg", "") else 150)


def log(msg):
    sys.stderr.write("[run_check] %s\n" % msg); sys.stderr.flush()


def exe_for(part, built):
    key = (part["variant"], bool(part.get("complex")))
    if key not in built:
        built[key] = {}
    if part["harness"] not in built[key]:
        # only the harness this part needs is compiled: a change of /repo that one harness cannot be compiled against (e.g. a
        # changed internal API of the dispatcher) must not take the checks of the other properties down with it
        built[key].update(buildmod.build(part["variant"], None, [part["harness"]], bool(part.get("complex")), verbose=True))
    return built[key].get(part["harness"])


def do_replay(pid, path):
    rp = json.load(open(path))
    built = {}
    part = dict(harness=rp["harness"], variant=rp["variant"], complex=rp.get("complex", False))
    exe = exe_for(part, built)
    r = vlib.run_single(exe, rp["seed"], rp["cfg"], choices=rp["choices"], want_trace=True, wrapper=vlib.wrapper_for(rp.get("valgrind")))
    print("replay: harness=%s variant=%s seed=%s" % (rp["harness"], rp["variant"], rp["seed"]))
    print("cfg: %s" % rp["cfg"])
    print("expected: %s | got: %s %s" % (rp["expect"]["verdict"], r["verdict"], r.get("detail", "")))
    if r.get("ubsan"): print("ubsan: %s" % r["ubsan"][:3])
    if r.get("trace"): print("--- trace (tail) ---\n" + r["trace"][-3000:])
    if r.get("stderr") and r["verdict"] != "ok": print("--- stderr (tail) ---\n" + r["stderr"][-3000:])
    vio = CHECKS[pid]["is_violation"](r)
    if vio:
        print("VIOLATION property=%s replay=%s" % (pid, path))
        return 1
    print("replay did not reproduce a violation (property holds on this tree for this schedule)")
    return 0


def main():
    if len(sys.argv) < 3 or sys.argv[1] not in CHECKS:
        print(__doc__); return 2
    pid = sys.argv[1]
    if sys.argv[2] == "--replay":
        return do_replay(pid, sys.argv[3])
    tier = sys.argv[2]
    if os.environ.get("VERIF_TIER") in ("quick", "thorough") and tier not in ("quick", "thorough"):
        tier = os.environ["VERIF_TIER"]
    assert tier in ("quick", "thorough")
    base = int(os.environ.get("VERIF_SEED", "1"))
    scale = float(os.environ.get("VERIF_SCALE", "1"))
    spec = CHECKS[pid]
    t0 = time.time()
    built = {}
    per_part = []
    nondet = []
    isv = spec["is_violation"]
    DIST_CAP = 6000000   # distinct-counting sets stop growing here (the count then is a lower bound)

    class Agg:
        """streaming aggregation: nothing but counters, hash sets, a few samples and the violating runs is kept in memory"""
        def __init__(self):
            self.n = 0; self.crashed = 0
            self.nontrivial = set(); self.full = set(); self.inter = set(); self.sigs = set(); self.capped = False
            self.fault_total = collections.Counter(); self.fault_runs = collections.Counter()
            self.probes = collections.Counter(); self.verdicts = collections.Counter()
            self.worlds = 0; self.vtime = 0.0; self.steps = 0
            self.samples = []; self.cand = []; self.unsupported = []; self.det = {}
        def add(self, r, pi, part):
            self.n += 1
            r["_part"] = pi
            st = r.get("stats", {})
            P = P_of(r)
            m = re.search(r"\bomp=(\d+)", r.get("cfg", ""))
            T = int(m.group(1)) if m else 1
            nt = P >= 2
            if pid == "C06": nt = P >= 2 or (T >= 2 and st.get("omp_regions", 0) > 0)
            if pid == "C13": nt = r.get("probes", {}).get("nontrivial_history", 0) > 0
            if pid == "C17": nt = (st.get("collectives", 0) + st.get("matches", 0) > 0) or r.get("harness") == "c17_workflow"
            h = r.get("harness"); oh = r.get("ohash", r["hash"])
            if len(self.full) < DIST_CAP:
                if nt: self.nontrivial.add(hash((h, oh, r.get("sig", ""))))
                self.full.add(hash((h, r["hash"]))); self.inter.add(hash((h, oh)))
                if r.get("sig"): self.sigs.add(hash(r["sig"]))
            else:
                self.capped = True
            for name, key in FAULTS.items():
                v = st.get(key, 0)
                if v: self.fault_total[name] += v; self.fault_runs[name] += 1
            for k2, v in r.get("probes", {}).items():
                if v: self.probes[k2] += 1
            self.verdicts[r["verdict"]] += 1
            self.worlds += r.get("nworlds", 0); self.vtime += st.get("vtime", 0); self.steps += st.get("steps", 0)
            if self.n % 50 == 1 and len(self.det.setdefault(pi, [])) < 64: self.det[pi].append((r["seed"], r["hash"], r["verdict"]))
            if len(self.samples) < 6 and self.n in (1, 7, 61, 433, 2999, 20011): self.samples.append(dict(harness=h, seed=r["seed"], cfg=r.get("cfg"), event_hash=r["hash"], interleaving_signature=oh, verdict=r["verdict"], steps=st.get("steps"), sig=r.get("sig", "")[:120]))
            if isv(r) and len(self.cand) < 20000: self.cand.append(r)
            if r["verdict"] == "sim-unsupported" and len(self.unsupported) < 10: self.unsupported.append(r)
        def add_crash(self, c, pi):
            self.crashed += 1
            c["_part"] = pi; c.setdefault("cfg", ""); c.setdefault("hash", "crash"); c.setdefault("stats", {}); c.setdefault("probes", {}); c.setdefault("ubsan", []); c.setdefault("sig", "")
            self.verdicts[c["verdict"]] += 1
            if (isv(c) or pid != "C17") and len(self.cand) < 20000: self.cand.append(c)
    agg = Agg()

    for pi, part in enumerate(spec["parts"][tier]):
        exe = exe_for(part, built)
        if not exe:
            log("harness %s not built" % part["harness"]); return 2
        seed0 = base * 100000000 + pi * 10000000
        nruns = max(16, int(part["runs"] * scale))
        tb = time.time()
        n_before = agg.n
        sat_rows = [] if part.get("saturation") else None
        def on_result(r, pi=pi, part=part, sat_rows=sat_rows):
            agg.add(r, pi, part)
            if sat_rows is not None: sat_rows.append((r["seed"], r.get("ohash", r["hash"]), r.get("phash", r["hash"]), r.get("sig", "")))
        _, crashes = vlib.run_batch(exe, seed0, nruns, part["tl"] * max(1.0, scale), cfg=part.get("cfg", ""), extra=["--watchdog", str(watchdog_of(part))],
                                    wrapper=vlib.wrapper_for(part.get("valgrind")), on_result=on_result, keep=False)
        for c in crashes: agg.add_crash(c, pi)
        wall = time.time() - tb
        nres = agg.n - n_before
        sat = None
        if sat_rows is not None:
            sat_rows.sort()
            seen, seenp, curve, curvep = set(), set(), [], []
            marks = set(int(len(sat_rows) * f) for f in (0.125, 0.25, 0.5, 0.75, 1.0))
            for i, (_, oh, ph, _) in enumerate(sat_rows, 1):
                seen.add(oh); seenp.add(ph)
                if i in marks: curve.append([i, len(seen)]); curvep.append([i, len(seenp)])
            sat = dict(cfg=part.get("cfg"), runs=len(sat_rows), distinct_interleavings_vs_runs=curve,
                       distinct_p2p_protocol_orders_vs_runs=curvep,
                       new_p2p_orders_in_last_quarter=(curvep[-1][1] - curvep[-2][1]) if len(curvep) >= 2 else None,
                       distinct_job_to_rank_maps=len(set(x[3] for x in sat_rows)))
        per_part.append(dict(part=part, runs=nres, crashes=len(crashes), wall_s=round(wall, 2), seed_first=seed0, seed_last=seed0 + nruns - 1, saturation=sat))
        log("%s/%s %s[%s%s]: %d runs (+%d crashed) in %.1fs" % (pid, tier, part["harness"], part["variant"], "-cx" if part.get("complex") else "", nres, len(crashes), wall))
    # determinism sample: re-execute a 2% sample of the seeds (up to 64 per part) in fresh processes, hashes must agree
    det_checked = 0
    import concurrent.futures
    jobs = []
    for pi, part in enumerate(spec["parts"][tier]):
        exe = exe_for(part, built)
        for seed, h, v in agg.det.get(pi, []):
            jobs.append((exe, seed, part.get("cfg") or None, h, v))
    with concurrent.futures.ThreadPoolExecutor(max_workers=vlib.NWORKERS) as ex:
        for (exe, seed, cfgo, h, v), r2 in zip(jobs, ex.map(lambda j: vlib.run_single(j[0], j[1], cfg=j[2]), jobs)):
            det_checked += 1
            if r2["hash"] != h or r2["verdict"] != v:
                nondet.append((seed, h, r2["hash"], v, r2["verdict"]))
    if nondet:
        # Either the simulator is not deterministic (a bug of mine) or the code under test has behaviour that depends on the
        # memory layout of the process (undefined behaviour). Decided below: violations that replay are reported first; failing
        # that, the mismatching seeds are re-executed in the sanitised build.
        log("event hash differs between two executions of the same seed: %s" % nondet[:3])
    nondet_part = {}
    for pi, part in enumerate(spec["parts"][tier]):
        lo, hi = base * 100000000 + pi * 10000000, base * 100000000 + (pi + 1) * 10000000
        for n in nondet:
            if lo <= n[0] < hi: nondet_part.setdefault(pi, []).append(n[0])

    # ---- violations
    cand = agg.cand
    unsupported = agg.unsupported
    known = vlib.load_known(pid)
    groups = collections.OrderedDict()
    for r in cand:
        cls = r["verdict"] if not (pid == "C17" and r["verdict"] == "ok") else "ubsan"
        if pid == "C17" and r.get("ubsan") and not r["verdict"].startswith("asan"): cls = ubsan_class(r)
        groups.setdefault(cls, []).append(r)
    replays, known_lines, new_violations = [], [], 0
    cls_of = lambda r: ubsan_class(r) if (pid == "C17" and r.get("ubsan") and not r["verdict"].startswith("asan")) else r["verdict"]
    unstable = []   # (class, part index, seeds) of groups in which no seed reproduced its class in a fresh process

    def report(part, seed, cls, first, rs, classify):
        """minimise, gate (two fresh-process replays must agree), write the replay file; returns False if the replay is unstable"""
        nonlocal new_violations
        exe = exe_for(part, built)
        vlib.CURRENT_WRAPPER = vlib.wrapper_for(part.get("valgrind"))
        first_for_min = dict(first); first_for_min["verdict"] = cls
        cfg_s, choices, best, nre = vlib.minimise(exe, seed, first_for_min, spec["workload_keys"], classify=classify,
                                                  budget_runs=300 if tier == "quick" else 800, budget_s=90 if tier == "quick" else 300, log=log)
        a = dict(vlib.run_single(exe, seed, cfg_s, choices=choices, want_trace=True)); a["verdict"] = classify(a)
        b = dict(vlib.run_single(exe, seed, cfg_s, choices=choices)); b["verdict"] = classify(b)
        if a["verdict"] != cls or b["verdict"] != cls or a["hash"] != b["hash"]:
            vlib.CURRENT_WRAPPER = None
            log("minimised replay of seed %s is not stable (%s/%s, %s/%s)" % (seed, a["verdict"], b["verdict"], a["hash"], b["hash"]))
            return False
        k = vlib.match_known(known, cls, a.get("cfg", cfg_s), a.get("detail", ""))
        vlib.CURRENT_WRAPPER = None
        rp = dict(property=pid, harness=part["harness"], variant=part["variant"], complex=bool(part.get("complex")), valgrind=part.get("valgrind") or False, seed=seed, cfg=a.get("cfg") or cfg_s,
                  choices=choices, expect=dict(verdict=cls, hash=a["hash"]), detail=a.get("detail", "") or "; ".join(a.get("ubsan", [])[:2]), ubsan=a.get("ubsan", []),
                  original=dict(seed=seed, cfg=first.get("cfg", ""), n_choices=len(first.get("choices") or [])), occurrences_in_batch=len(rs),
                  trace=a.get("trace", "")[-20000:], stderr=a.get("stderr", "")[-4000:] if cls != "ok" else "")
        path = os.path.join(os.environ.get("VERIF_OUT") or VERIF, "replays", "%s-%s-%s.json" % (pid, part["harness"], seed))
        vlib.write_json(path, rp)
        if k:
            known_lines.append("KNOWN-FINDING: property=%s %s [%s, %d runs, replay=%s]" % (pid, k["text"], cls, len(rs), path))
        else:
            new_violations += 1
            replays.append((cls, path, rp["detail"], len(rs)))
        return True

    for cls, rs in list(groups.items())[:8]:
        pi = rs[0]["_part"]
        rs = [r for r in rs if r["_part"] == pi] or rs
        part = spec["parts"][tier][pi]
        exe = exe_for(part, built)
        cands = sorted(rs, key=lambda r: (P_of(r), len(r.get("cfg", "")))) if all(r.get("cfg") for r in rs) else list(rs)
        done = False
        for r0 in cands[:8]:
            # gate 1: the failing seed must show the same class when executed alone in a fresh process
            first = vlib.run_single(exe, r0["seed"], cfg=part.get("cfg") or None, want_choices=True, wrapper=vlib.wrapper_for(part.get("valgrind")))
            if cls_of(first) != cls:
                log("seed %s: class changed on re-execution in a fresh process (%s -> %s); trying another seed of this class" % (r0["seed"], cls, cls_of(first)))
                continue
            if report(part, r0["seed"], cls, first, rs, cls_of):
                done = True
                break
        if not done:
            unstable.append((cls, pi, [r["seed"] for r in cands[:8]]))
    # A class whose seeds do not replay in the uninstrumented build means behaviour that depends on the memory layout of the
    # process, i.e. undefined behaviour (e.g. a receive that writes through a dead buffer). Re-execute those seeds - same
    # configuration, same schedule - in the sanitised build, where such an error is reported deterministically.
    inconclusive = None
    for pi, seeds in nondet_part.items():
        unstable.append(("layout-dependent-behaviour", pi, seeds[:8]))
    if unstable and not new_violations and not known_lines:
        for cls, pi, seeds in unstable:
            part = dict(spec["parts"][tier][pi]); part["variant"] = "san"
            exe = exe_for(part, built)
            san_cls = lambda r: (ubsan_class(r) if r.get("ubsan") and r["verdict"] in ("ok",) else r["verdict"])
            for seed in seeds[:5]:
                f1 = vlib.run_single(exe, seed, cfg=part.get("cfg") or None, want_choices=True); f2 = vlib.run_single(exe, seed, cfg=part.get("cfg") or None)
                c1, c2 = san_cls(f1), san_cls(f2)
                if c1 != "ok" and c1 == c2:
                    log("seed %s (unstable class %s in the plain build) gives %s in the sanitised build" % (seed, cls, c1))
                    if report(part, seed, c1, f1, [f1], san_cls): break
            if new_violations: break
        if not new_violations:
            inconclusive = ("executions of the same seed differ (%s) and neither a replayable violation nor a sanitizer report explains it: simulator nondeterminism or unreproducible violation" % ", ".join(sorted(set(u[0] for u in unstable))))
    wall = time.time() - t0

    # ---- evidence
    faults = collections.OrderedDict((name, dict(fired_total=agg.fault_total[name], runs_where_fired=agg.fault_runs[name])) for name in FAULTS)
    probes, verdicts, samples = agg.probes, agg.verdicts, agg.samples
    nruns = agg.n + agg.crashed
    nontrivial = agg.nontrivial
    ev = dict(
        property_id=pid, tier=tier, seed=base, level="exploration",
        coverage=dict(
            evaluations=nruns, distinct_nontrivial=len(nontrivial), rule=spec["rule"], samples=samples or [dict(note="no run completed")],
            exhaustive=False,
            runs_per_hour=int(nruns / max(wall, 1e-9) * 3600), seeds_per_hour=int(nruns / max(wall, 1e-9) * 3600),
            simulated_worlds=agg.worlds,
            simulated_time_virtual_s=round(agg.vtime * 1e-6, 3),
            scheduling_steps=agg.steps,
            faults_injected=faults, probes_hit_runs=dict(probes), verdicts=dict(verdicts),
            distinct_full_event_hashes=len(agg.full),
            distinct_interleavings=len(agg.inter), distinct_coverage_signatures=len(agg.sigs),
            distinct_counts_are_lower_bounds=agg.capped,
            distinct_rule_note="distinct_nontrivial counts distinct (harness, interleaving signature, coverage signature) triples among non-trivial runs; the coverage signature is the job-to-rank map (C16), the sequence of ranks that received work orders (C06) or the operation history (C13, C17)",
            small_configuration_saturation=[p["saturation"] for p in per_part if p.get("saturation")],
            parts=[dict(harness=p["part"]["harness"], cfg_override=p["part"].get("cfg", ""), variant=p["part"]["variant"] + ("-complex" if p["part"].get("complex") else ""), runs=p["runs"], crashed=p["crashes"], wall_s=p["wall_s"], seeds="%d..%d" % (p["seed_first"], p["seed_last"])) for p in per_part],
            determinism_recheck=dict(seeds_reexecuted=det_checked, mismatches=len(nondet)),
            components=COMPONENTS,
            violations=[dict(cls=c, replay=p, detail=d[:300], runs=n) for c, p, d, n in replays], known_findings_hit=known_lines,
        ),
        assumptions=[
            "SimMPI models MPI-3.1 semantics as used through boost::mpi 1.83 (posted-order matching, non-overtaking, eager/rendezvous, collectives with legal liberties); boost::mpi/Open MPI themselves are not under test",
            "ranks interact only through MPI calls, so interleaving at MPI-call granularity is complete for the real system; OpenMP logical threads are serialised fibers (seeded order, chunk granularity, in-region barriers) in the deterministic parts; data races inside a loop body are covered only by the real-thread parts of C06 (ThreadSanitizer and helgrind, team of real threads on one inline rank)",
            "sampling, not proof: a clean batch is evidence only; model family and sizes as in DESIGN.md",
            "message loss/duplication/corruption, rank crashes and partitions are NOT injected: the MPI contract excludes them and pomerol has no handling to verify",
        ],
        wall_s=round(wall, 2), violations=new_violations,
    )
    outdir = os.environ.get("VERIF_OUT") or VERIF   # VERIF_OUT: sensitivity runs against scratch trees must not overwrite the real evidence
    vlib.write_json(os.path.join(outdir, "evidence", "%s.json" % pid), ev)
    for l in known_lines: print(l)
    print("property=%s tier=%s runs=%d distinct_nontrivial=%d wall=%.1fs verdicts=%s" % (pid, tier, nruns, len(nontrivial), wall, dict(verdicts)))
    if inconclusive and not new_violations:
        print("INCONCLUSIVE property=%s %s" % (pid, inconclusive))
        return 2
    if unsupported and not new_violations:
        print("INCONCLUSIVE property=%s: %d runs hit an unsupported simulator feature: %s" % (pid, len(unsupported), unsupported[0].get("detail")))
        return 2
    if new_violations:
        for cls, path, det, n in replays:
            print("violation class=%s runs=%d detail=%s" % (cls, n, det[:300]))
            print("VIOLATION property=%s replay=%s" % (pid, path))
        return 1
    return 0


if __name__ == "__main__":
    try:
        rc = main()
    except SystemExit:
        raise
    except BaseException as e:   # an internal error of the runner is never a verdict about the property
        import traceback; traceback.print_exc()
        print("INCONCLUSIVE internal error of the runner: %r" % (e,))
        rc = 2
    sys.exit(rc)
