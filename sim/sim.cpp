// Deterministic simulator core. See sim.hpp / DESIGN.md §2.
#include "sim.hpp"
#include <ucontext.h>
#include <sys/mman.h>
#include <cstring>
#include <cstdio>
#include <cstdlib>
#include <algorithm>
#include <tuple>
#include <sstream>
#include <cassert>

#if defined(__SANITIZE_ADDRESS__)
#define SIM_ASAN 1
#elif defined(__has_feature)
#if __has_feature(address_sanitizer)
#define SIM_ASAN 1
#endif
#endif
#ifdef SIM_ASAN
#include <sanitizer/common_interface_defs.h>
#include <sanitizer/asan_interface.h>
#endif
#ifdef SIM_VALGRIND
#include <valgrind/valgrind.h>
#endif

// Context switch without libc's swapcontext: no sigprocmask syscall and no ASan swapcontext interceptor
// (which clears the shadow of the whole destination stack on every switch). ASan is told about the
// switches through the fiber API below.
#if defined(__x86_64__)
#define SIM_ASM_SWITCH 1
extern "C" void sim_ctx_switch(void** save_sp, void* new_sp);
asm(R"(
.text
.globl sim_ctx_switch
.type sim_ctx_switch,@function
sim_ctx_switch:
    pushq %rbp
    pushq %rbx
    pushq %r12
    pushq %r13
    pushq %r14
    pushq %r15
    movq %rsp, (%rdi)
    movq %rsi, %rsp
    popq %r15
    popq %r14
    popq %r13
    popq %r12
    popq %rbx
    popq %rbp
    ret
.size sim_ctx_switch,.-sim_ctx_switch
.section .note.GNU-stack,"",@progbits
.text
)");
#endif

namespace sim {

const char* const choice_kind_name[] = {"sched", "lat", "rdv", "stall", "stalllen", "speed", "work", "bcastwait",
                                        "reduceord", "ompord", "prio", "pctpoint", "tie", "leaveearly", "ompteam", "misc"};
const char* const ev_kind_name[] = {"run", "deliver", "send", "postrecv", "match", "test_ok", "test_fail", "wait",
                                    "cancel", "coll_arrive", "coll_leave", "block", "finish", "work", "omp", "stall",
                                    "split", "probe", "exc", "note"};

static const int COLL_BARRIER = 1, COLL_BCAST = 2, COLL_REDUCE = 3, COLL_ALLREDUCE = 4, COLL_GATHER = 5,
                 COLL_ALLGATHER = 6, COLL_SCATTER = 7, COLL_SPLIT = 8;
static const char* coll_name(int k) {
    static const char* n[] = {"?", "barrier", "broadcast", "reduce", "all_reduce", "gather", "all_gather", "scatter", "split"};
    return (k >= 1 && k <= 8) ? n[k] : "?";
}

struct World::Task {
    int rank = 0;
    ucontext_t uc;
    void* sp = nullptr;
    char* stack = nullptr;
    size_t stack_size = 0;
    enum { READY, BLOCKED, DONE } state = READY;
    bool started = false;
    std::function<bool()> pred;
    long failed_polls = 0;   // consecutive unsuccessful polls since the rank last did or received anything
    long soft_calls = 0;     // consecutive non-yielding API calls (tests on inactive requests) since the last real yield
    long stall_until = 0;
    long stall_countdown = -1;
    double vt = 0, speed = 1, prio = 0;
    void* fake_stack = nullptr;
    int omp_tid = 0, omp_nthr = 1;
    std::string exc;
    bool has_exc = false;
    unsigned vg_id = 0;
};

struct World::Coll {
    long seq = 0;
    int kind = 0, root = 0;
    long nbytes = -1;
    int n = 0, arrived = 0, left = 0;
    std::vector<char> here;
    std::vector<std::string> contrib;
    bool root_dep = false;
    std::string root_data;
    std::vector<std::string> root_vec;
    std::string result;
    bool result_ready = false;
    std::vector<int> colors, keys, newctx;
    bool done = false;
};

struct World::Ctx {
    std::vector<int> members;          // ctx rank -> world rank
    std::vector<long> coll_seq;        // per member: number of collectives started on this ctx
    std::map<long, Coll> colls;
};

// --- process-wide state of the (single) running world -----------------------------------------------
static World* g_world = nullptr;
static int g_rank = -1;
static ucontext_t g_sched_uc;
static void* g_sched_sp = nullptr;
static const void* g_sched_stack_bottom = nullptr;
static size_t g_sched_stack_size = 0;
static void* g_sched_fake = nullptr;
static std::vector<char*> g_stack_pool;
static size_t g_stack_pool_size = 0;

// Copies n bytes from a caller-supplied address with a plain memcpy (instrumented/intercepted by the sanitizers).
// Not std::string::assign: libstdc++ silently skips the copy for a null source, which would hide exactly the
// "null / too short buffer handed to MPI" errors this layer exists to expose.
static void copy_in(std::string& dst, const void* src, size_t n) {
    dst.resize(n);
    if (n) memcpy(&dst[0], src, n);
}

World* cur() { return g_world; }
int cur_rank() { return g_rank; }

static char* alloc_stack(size_t sz) {
    if (g_stack_pool_size == sz && !g_stack_pool.empty()) {
        char* p = g_stack_pool.back();
        g_stack_pool.pop_back();
#ifdef SIM_ASAN
        ASAN_UNPOISON_MEMORY_REGION(p, sz);
#endif
        return p;
    }
    void* p = mmap(nullptr, sz, PROT_READ | PROT_WRITE, MAP_PRIVATE | MAP_ANONYMOUS | MAP_NORESERVE, -1, 0);
    if (p == MAP_FAILED) { perror("mmap stack"); abort(); }
    mprotect(p, 4096, PROT_NONE); // guard page: a stack overflow faults instead of corrupting a neighbour
    return (char*)p;
}
static void free_stack(char* p, size_t sz) {
    if (g_stack_pool_size != sz) {
        for (char* q : g_stack_pool) munmap(q, g_stack_pool_size);
        g_stack_pool.clear();
        g_stack_pool_size = sz;
    }
#ifdef SIM_ASAN
    ASAN_UNPOISON_MEMORY_REGION(p, sz);
#endif
    if (g_stack_pool.size() < 64) g_stack_pool.push_back(p); else munmap(p, sz);
}

// --- construction -----------------------------------------------------------------------------------
World::World(const Options& o) : o_(o) {
    // scramble the seed: consecutive seeds must not give shifted copies of one splitmix64 stream
    { uint64_t z = o.seed + 0xD1B54A32D192ED03ULL; z = (z ^ (z >> 30)) * 0xBF58476D1CE4E5B9ULL; z = (z ^ (z >> 27)) * 0x94D049BB133111EBULL; z ^= z >> 31;
      z ^= 0x5851F42D4C957F2DULL; z = (z ^ (z >> 30)) * 0xBF58476D1CE4E5B9ULL; z = (z ^ (z >> 27)) * 0x94D049BB133111EBULL; rng_ = z ^ (z >> 31); }
    posted_.resize(o.nranks);
    unexpected_.resize(o.nranks);
    std::unique_ptr<Ctx> w(new Ctx);
    for (int r = 0; r < o.nranks; r++) w->members.push_back(r);
    w->coll_seq.assign(o.nranks, 0);
    ctxs_.push_back(std::move(w));
}

World::~World() {
    for (auto& t : tasks_) if (t && t->stack) {
#ifdef SIM_VALGRIND
        VALGRIND_STACK_DEREGISTER(t->vg_id);
#endif
        free_stack(t->stack, t->stack_size);
        t->stack = nullptr;
    }
}

uint64_t World::next_u64() {
    uint64_t z = (rng_ += 0x9E3779B97F4A7C15ULL);
    z = (z ^ (z >> 30)) * 0xBF58476D1CE4E5B9ULL;
    z = (z ^ (z >> 27)) * 0x94D049BB133111EBULL;
    return z ^ (z >> 31);
}

int World::choose(int kind, int n) {
    if (n <= 1) return 0;
    int v;
    if (o_.replay) {
        v = 0;
        if (replay_pos_ < o_.replay_choices.size()) {
            int x = o_.replay_choices[replay_pos_];
            if (x >= 0 && x < n) v = x;
        }
        replay_pos_++;
    } else {
        v = (int)(next_u64() % (uint64_t)n);
    }
    if (o_.keep_choices || o_.replay) { choices_.push_back(v); choice_kinds_.push_back((uint8_t)kind); }
    return v;
}

void World::add_event(int rank, int kind, int a, int b, int c, int d) {
    Event e{(uint32_t)st_.steps, (int16_t)rank, (uint8_t)kind, a, b, c, d};
    events_.push_back(e);
    uint64_t h = hash_;
    uint64_t w[6] = {(uint64_t)e.step, (uint64_t)(uint16_t)e.rank, e.kind, (uint64_t)(uint32_t)a | ((uint64_t)(uint32_t)b << 32),
                     (uint64_t)(uint32_t)c, (uint64_t)(uint32_t)d};
    for (int i = 0; i < 6; i++) { h ^= w[i]; h *= 1099511628211ULL; h ^= h >> 29; }
    hash_ = h;
    // interleaving signature: the order of all events except unsuccessful polls and stalls, without step numbers
    // (two executions that differ only in how often somebody polled in vain are the same interleaving)
    if (kind != EV_TEST_FAIL && kind != EV_STALL) {
        uint64_t g = ohash_;
        for (int i = 1; i < 6; i++) { g ^= w[i]; g *= 1099511628211ULL; g ^= g >> 31; }
        ohash_ = g;
    }
    // point-to-point protocol signature: only sends, deliveries, receive postings, matches, completions, cancels and harness notes
    // (job executions), i.e. the dispatcher protocol without the interleaving of collective arrivals
    if (kind == EV_SEND || kind == EV_DELIVER || kind == EV_POSTRECV || kind == EV_MATCH || kind == EV_TEST_OK || kind == EV_CANCEL || kind == EV_NOTE || kind == EV_WAIT) {
        uint64_t g = phash_;
        for (int i = 1; i < 6; i++) { g ^= w[i]; g *= 1099511628211ULL; g ^= g >> 31; }
        phash_ = g;
    }
}

void World::note(int a, int b, int c, int d) { add_event(g_rank, EV_NOTE, a, b, c, d); }

std::string World::format_trace(size_t max_lines) const {
    std::ostringstream os;
    size_t start = events_.size() > max_lines ? events_.size() - max_lines : 0;
    if (start) os << "... (" << start << " earlier events omitted)\n";
    for (size_t i = start; i < events_.size(); i++) {
        const Event& e = events_[i];
        os << "step " << e.step << " ";
        if (e.rank >= 0) os << "r" << e.rank << " "; else os << "net ";
        switch (e.kind) {
            case EV_SEND: os << "send ctx=" << e.a << " dst=" << e.b << " tag=" << e.c << " bytes=" << e.d; break;
            case EV_DELIVER: os << "deliver ctx=" << e.a << " " << e.b << "->" << e.c << " tag=" << e.d; break;
            case EV_POSTRECV: os << "post_recv ctx=" << e.a << " src=" << e.b << " tag=" << e.c << " cap=" << e.d; break;
            case EV_MATCH: os << "match ctx=" << e.a << " src=" << e.b << " tag=" << e.c << " req#" << e.d; break;
            case EV_TEST_OK: os << "test req#" << e.a << " -> completed"; break;
            case EV_TEST_FAIL: os << "test req#" << e.a << " -> not yet"; break;
            case EV_WAIT: os << "wait req#" << e.a; break;
            case EV_CANCEL: os << "cancel req#" << e.a; break;
            case EV_COLL_ARRIVE: os << coll_name(e.b) << " arrive ctx=" << e.a << " root=" << e.c << " bytes=" << e.d; break;
            case EV_COLL_LEAVE: os << coll_name(e.b) << " leave ctx=" << e.a << " #" << e.c; break;
            case EV_BLOCK: os << "blocks in " << ev_kind_name[e.a < EV__N ? e.a : EV_NOTE] << " (" << e.b << "," << e.c << ")"; break;
            case EV_SPLIT: os << "split ctx=" << e.a << " color=" << e.b << " key=" << e.c << " -> ctx " << e.d; break;
            case EV_WORK: os << "work mean=" << e.a << "us"; break;
            case EV_OMP: os << "omp parallel region, team of " << e.a; break;
            case EV_STALL: os << "stalled for " << e.a; break;
            case EV_FINISH: os << "rank function returned"; break;
            case EV_EXC: os << "rank function threw"; break;
            default: os << ev_kind_name[e.kind] << " " << e.a << " " << e.b << " " << e.c << " " << e.d;
        }
        os << "\n";
    }
    return os.str();
}

double World::vt(int rank) const { return tasks_[rank]->vt; }
void World::rank_stack(const void** bottom, size_t* size) const { const Task& t = *tasks_[g_rank]; *bottom = t.stack; *size = t.stack_size; }

void World::set_verdict(const std::string& v, const std::string& d) {
    if (!verdict_set_) { verdict_set_ = true; verdict_ = v; detail_ = d; }
    aborting_ = true;
}

void World::fail(const std::string& verdict, const std::string& detail) {
    set_verdict(verdict, detail);
    if (g_rank >= 0 && std::uncaught_exceptions() == 0) throw Abort();
}

void World::check_abort() {
    if (aborting_ && std::uncaught_exceptions() == 0) throw Abort();
}

// --- context switching ------------------------------------------------------------------------------
#ifdef SIM_ASM_SWITCH
static void asm_entry() { World::trampoline_entry(); }
#endif
void World::trampoline_entry() { uintptr_t p = (uintptr_t)g_world; trampoline((unsigned)(p & 0xffffffffu), (unsigned)(p >> 32)); }

void World::trampoline(unsigned lo, unsigned hi) {
    World* w = (World*)(((uintptr_t)hi << 32) | (uintptr_t)lo);
#ifdef SIM_ASAN
    __sanitizer_finish_switch_fiber(nullptr, &g_sched_stack_bottom, &g_sched_stack_size);
#endif
    Task& t = *w->tasks_[g_rank];
    try {
        if (!w->aborting_) (*w->fn_)(t.rank);
    } catch (Abort&) {
    } catch (std::exception& e) {
        t.has_exc = true; t.exc = e.what();
    } catch (...) {
        t.has_exc = true; t.exc = "unknown exception";
    }
    t.state = Task::DONE;
    w->progress();
    w->add_event(t.rank, t.has_exc ? EV_EXC : EV_FINISH, 0, 0, 0, 0);
    if (t.has_exc && !w->aborting_) w->set_verdict("exception", "rank " + std::to_string(t.rank) + ": " + t.exc);
#ifdef SIM_ASAN
    __sanitizer_start_switch_fiber(nullptr, g_sched_stack_bottom, g_sched_stack_size);
#endif
#ifdef SIM_ASM_SWITCH
    sim_ctx_switch(&t.sp, g_sched_sp);
#else
    swapcontext(&t.uc, &g_sched_uc);
#endif
    abort(); // never resumed
}

void World::switch_to(Task& t) {
    g_rank = t.rank;
    running_ = t.rank;
    omp_tid = t.omp_tid; omp_nthr = t.omp_nthr;
    t.started = true;
#ifdef SIM_ASAN
    __sanitizer_start_switch_fiber(&g_sched_fake, t.stack, t.stack_size);
#endif
#ifdef SIM_ASM_SWITCH
    sim_ctx_switch(&g_sched_sp, t.sp);
#else
    swapcontext(&g_sched_uc, &t.uc);
#endif
#ifdef SIM_ASAN
    __sanitizer_finish_switch_fiber(g_sched_fake, nullptr, nullptr);
#endif
    t.omp_tid = omp_tid; t.omp_nthr = omp_nthr;
    g_rank = -1;
    running_ = -1;
}

void World::back_to_scheduler() {
    Task& t = *tasks_[g_rank];
#ifdef SIM_ASAN
    __sanitizer_start_switch_fiber(&t.fake_stack, g_sched_stack_bottom, g_sched_stack_size);
#endif
#ifdef SIM_ASM_SWITCH
    sim_ctx_switch(&t.sp, g_sched_sp);
#else
    swapcontext(&t.uc, &g_sched_uc);
#endif
#ifdef SIM_ASAN
    __sanitizer_finish_switch_fiber(t.fake_stack, &g_sched_stack_bottom, &g_sched_stack_size);
#endif
}

void World::yield_point(int evkind, int a, int b, int c, int d) {
    if (g_rank < 0) return;
    if (aborting_) { if (std::uncaught_exceptions() == 0) throw Abort(); return; }
    Task& t = *tasks_[g_rank];
    st_.yields++;
    t.soft_calls = 0;
    if (inline_mode_) { st_.steps++; if (evkind >= 0) add_event(t.rank, evkind, a, b, c, d); return; }
    // seeded stall injection
    if (o_.stall_permille > 0) {
        if (t.stall_countdown == -1) {
            int v = choose(CK_STALL, 2 * 1000 / o_.stall_permille + 1);
            t.stall_countdown = v == 0 ? -2 : v;
        }
        if (t.stall_countdown > 0 && --t.stall_countdown == 0) {
            int len = 1 + choose(CK_STALLLEN, o_.max_stall);
            if (o_.policy == POL_DES) t.vt += 10.0 * len; else t.stall_until = st_.steps + len;
            st_.stalls++;
            add_event(t.rank, EV_STALL, len, 0, 0, 0);
            t.stall_countdown = -1;
        }
    }
    back_to_scheduler();
    if (aborting_) { if (std::uncaught_exceptions() == 0) throw Abort(); return; }
    if (evkind >= 0) add_event(t.rank, evkind, a, b, c, d);
}

void World::block_until(const std::function<bool()>& pred, int evkind, int a, int b) {
    if (g_rank < 0) return;
    if (aborting_) { if (std::uncaught_exceptions() == 0) throw Abort(); return; }
    if (pred()) return;
    if (inline_mode_) fail("deadlock", "the only rank blocks on a condition nobody else can satisfy");
    Task& t = *tasks_[g_rank];
    t.state = Task::BLOCKED;
    t.pred = pred;
    add_event(t.rank, EV_BLOCK, evkind, a, b, 0);
    progress();
    back_to_scheduler();
    t.pred = nullptr;
    if (aborting_) { if (std::uncaught_exceptions() == 0) throw Abort(); return; }
}

void World::failed_poll() {
    if (g_rank < 0) return;
    if (++tasks_[g_rank]->failed_polls > 100000 && inline_mode_) fail("hang", "the only rank polls without ever succeeding");
}

void World::progress() {
    ++epoch_;
    if (g_rank >= 0) tasks_[g_rank]->failed_polls = 0;
}

// something addressed to world rank w happened (match on one of its requests, arrival in its unexpected queue):
// only such an event can turn one of its polls from failure to success
void World::poke(int w) { if (w >= 0 && w < (int)tasks_.size()) tasks_[w]->failed_polls = 0; }

static const int WORK_TABLE[16] = {1, 1, 2, 1, 3, 2, 5, 1, 8, 13, 1, 21, 34, 2, 55, 89};

void World::work(double mean_us) {
    if (g_rank < 0) return;
    yield_point(EV_WORK, (int)mean_us);
    Task& t = *tasks_[g_rank];
    st_.work_calls++;
    int f = WORK_TABLE[choose(CK_WORK, 16)];
    if (o_.policy == POL_DES) t.vt += mean_us * f * t.speed;
    else if (f > 1) t.stall_until = st_.steps + f;
    progress();
}

// --- the scheduler ----------------------------------------------------------------------------------
Result World::run(const std::function<void(int)>& fn) {
    if (g_world) { fprintf(stderr, "sim: nested worlds are not supported\n"); abort(); }
    g_world = this;
    fn_ = &fn;
    const int P = o_.nranks;
    const long N_DEMOTE = 2 * P + 4, N_HANG = 1000;
    tasks_.clear();
    if (o_.inline_single && P == 1) {
        // single rank on the caller's stack: every MPI call completes on the spot (self-sends match at once, collectives of one)
        inline_mode_ = true;
        o_.latency = false; o_.lazy_isend_pct = 0; o_.stall_permille = 0;
        tasks_.push_back(std::unique_ptr<Task>(new Task));
        Task& t = *tasks_[0];
        t.started = true;
        g_rank = 0;
        try { fn(0); }
        catch (Abort&) {}
        catch (std::exception& e) { t.has_exc = true; t.exc = e.what(); }
        catch (...) { t.has_exc = true; t.exc = "unknown exception"; }
        g_rank = -1;
        t.state = Task::DONE;
        if (t.has_exc && !verdict_set_) set_verdict("exception", "rank 0: " + t.exc);
        Result res;
        res.verdict = verdict_set_ ? verdict_ : "ok"; res.detail = detail_; res.hash = hash_; res.order_hash = ohash_; res.p2p_hash = phash_;
        st_.vtime = now_; res.st = st_; res.choices = choices_; res.choice_kinds = choice_kinds_;
        res.rank_exceptions.push_back(t.has_exc ? t.exc : "");
        g_world = nullptr; fn_ = nullptr;
        return res;
    }
    for (int r = 0; r < P; r++) {
        std::unique_ptr<Task> t(new Task);
        t->rank = r;
        t->stack_size = o_.stack_bytes;
        t->stack = alloc_stack(t->stack_size);
#ifdef SIM_VALGRIND
        t->vg_id = VALGRIND_STACK_REGISTER(t->stack, t->stack + t->stack_size);
#endif
#ifdef SIM_ASM_SWITCH
        {
            uintptr_t top = ((uintptr_t)t->stack + t->stack_size) & ~(uintptr_t)15;
            void** sp = (void**)top;
            *--sp = nullptr;                 // fake return address: entry sees rsp == 8 (mod 16)
            *--sp = (void*)&asm_entry;       // 'ret' target of the first switch
            for (int i = 0; i < 6; i++) *--sp = nullptr; // rbp rbx r12 r13 r14 r15
            t->sp = (void*)sp;
        }
#else
        getcontext(&t->uc);
        t->uc.uc_stack.ss_sp = t->stack;
        t->uc.uc_stack.ss_size = t->stack_size;
        t->uc.uc_link = nullptr;
        uintptr_t p = (uintptr_t)this;
        makecontext(&t->uc, (void (*)())World::trampoline, 2, (unsigned)(p & 0xffffffffu), (unsigned)(p >> 32));
#endif
        tasks_.push_back(std::move(t));
    }
    // per-run parameters, all drawn through choose()
    static const double SPEEDS[8] = {1, 1.5, 2, 3, 5, 10, 20, 50};
    if (o_.speeds) for (int r = 0; r < P; r++) tasks_[r]->speed = SPEEDS[choose(CK_SPEED, 8)];
    if (o_.policy == POL_PCT) {
        for (int r = 0; r < P; r++) tasks_[r]->prio = 1000 + choose(CK_PRIO, 1000) + 0.001 * (P - r);
        for (int i = 0; i < o_.pct_depth; i++) pct_points_.push_back(choose(CK_PCTPOINT, (int)o_.pct_horizon));
    }

    struct Cand { int type; int idx; std::tuple<int,int,int> key; double time; double prio; };
    std::vector<Cand> cands, filt;
    while (true) {
        if (verdict_set_) break;
        cands.clear();
        bool any_live = false, all_stuck = true;
        for (int r = 0; r < P; r++) {
            Task& t = *tasks_[r];
            if (t.state == Task::DONE) continue;
            any_live = true;
            if (t.state == Task::READY) {
                cands.push_back(Cand{0, r, {}, std::max(t.vt, 0.0), t.prio});
                if (t.failed_polls < N_HANG) all_stuck = false;
            } else if (t.pred && t.pred()) {
                cands.push_back(Cand{0, r, {}, std::max(t.vt, now_), t.prio});
                all_stuck = false;
            }
        }
        for (auto& kv : chan_) if (!kv.second.empty()) {
            cands.push_back(Cand{1, 0, kv.first, kv.second.front().arrive, chan_prio_[kv.first]});
            all_stuck = false;
        }
        if (cands.empty()) {
            if (any_live) {
                std::ostringstream os; os << "no rank can proceed:";
                for (int r = 0; r < P; r++) if (tasks_[r]->state == Task::BLOCKED) os << " r" << r << " blocked";
                set_verdict("deadlock", os.str());
            }
            break;
        }
        if (all_stuck) {
            std::ostringstream os; os << "all live ranks are polling without progress (or blocked), nothing in flight:";
            for (int r = 0; r < P; r++) { Task& t = *tasks_[r]; if (t.state == Task::READY) os << " r" << r << " polling"; else if (t.state == Task::BLOCKED) os << " r" << r << " blocked"; }
            set_verdict("hang", os.str());
            break;
        }
        if ((long)epoch_ >= o_.step_cap || st_.steps >= 10 * o_.step_cap) {
            set_verdict("step-budget", "budget of " + std::to_string(o_.step_cap) + " progress events / " + std::to_string(10 * o_.step_cap) + " scheduling steps exhausted");
            break;
        }

        // filter: stalled and idle-polling ranks are not offered while something else can run
        filt.clear();
        for (auto& c : cands) {
            if (c.type == 0) {
                Task& t = *tasks_[c.idx];
                bool stalled = t.stall_until > st_.steps;
                bool demoted = t.state == Task::READY && t.failed_polls >= N_DEMOTE;
                if (stalled || demoted) continue;
            }
            filt.push_back(c);
        }
        if (filt.empty()) {
            for (auto& c : cands) if (!(c.type == 0 && tasks_[c.idx]->stall_until > st_.steps)) filt.push_back(c);
            if (!filt.empty()) st_.demotions++;
        }
        if (filt.empty()) filt = cands;

        size_t pick = 0;
        if (o_.policy == POL_UNIFORM) {
            pick = (size_t)choose(CK_SCHED, (int)filt.size());
        } else if (o_.policy == POL_DES) {
            double best = filt[0].time;
            for (auto& c : filt) best = std::min(best, c.time);
            std::vector<size_t> ties;
            for (size_t i = 0; i < filt.size(); i++) if (filt[i].time <= best) ties.push_back(i);
            pick = ties[(size_t)choose(CK_TIE, (int)ties.size())];
            now_ = std::max(now_, best);
        } else {
            for (size_t i = 1; i < filt.size(); i++) if (filt[i].prio > filt[pick].prio) pick = i;
            for (long pp : pct_points_) if (pp == st_.steps) {
                low_prio_ -= 1;
                if (filt[pick].type == 0) tasks_[filt[pick].idx]->prio = low_prio_; else chan_prio_[filt[pick].key] = low_prio_;
            }
        }
        st_.steps++;
        Cand c = filt[pick];
        if (c.type == 1) {
            deliver(c.key);
        } else {
            Task& t = *tasks_[c.idx];
            if (o_.policy == POL_DES) t.vt = std::max(t.vt, now_) + 1.0 * t.speed;
            else { t.vt += 1.0; now_ = std::max(now_, t.vt); }
            t.state = Task::READY;
            switch_to(t);
        }
    }
    // teardown: unwind every suspended rank so that destructors run and heap memory is released
    aborting_ = aborting_ || verdict_set_;
    bool any_suspended = false;
    for (int r = 0; r < P; r++) if (tasks_[r]->state != Task::DONE) any_suspended = true;
    if (any_suspended) {
        aborting_ = true;
        for (int round = 0; round < 50; round++) {
            bool left = false;
            for (int r = 0; r < P; r++) {
                Task& t = *tasks_[r];
                if (t.state == Task::DONE) continue;
                if (!t.started) { t.state = Task::DONE; continue; }
                switch_to(t);
                if (t.state != Task::DONE) left = true;
            }
            if (!left) break;
        }
    }
    Result res;
    res.verdict = verdict_set_ ? verdict_ : "ok";
    res.detail = detail_;
    res.hash = hash_;
    res.order_hash = ohash_;
    res.p2p_hash = phash_;
    for (int r = 0; r < P; r++) now_ = std::max(now_, tasks_[r]->vt);
    st_.vtime = now_;
    st_.contexts = (long)ctxs_.size();
    res.st = st_;
    res.choices = choices_;
    res.choice_kinds = choice_kinds_;
    for (int r = 0; r < P; r++) res.rank_exceptions.push_back(tasks_[r]->has_exc ? tasks_[r]->exc : "");
    g_world = nullptr;
    fn_ = nullptr;
    return res;
}

// --- MPI core: contexts ------------------------------------------------------------------------------
int World::ctx_size(int ctx) const {
    if (ctx < 0 || ctx >= (int)ctxs_.size()) throw MpiError("invalid communicator");
    return (int)ctxs_[ctx]->members.size();
}
int World::ctx_rank(int ctx) const {
    if (ctx < 0 || ctx >= (int)ctxs_.size()) throw MpiError("invalid communicator");
    const std::vector<int>& m = ctxs_[ctx]->members;
    for (size_t i = 0; i < m.size(); i++) if (m[i] == g_rank) return (int)i;
    return -1;
}
int World::ctx_world_rank(int ctx, int r) const { return ctxs_[ctx]->members.at(r); }

// --- MPI core: point to point ------------------------------------------------------------------------
static bool env_match(const ReqState& r, const Msg& m) {
    return r.ctx == m.ctx && (r.src < 0 || r.src == m.src) && (r.tag < 0 || r.tag == m.tag);
}

void World::complete_match(const ReqPtr& r, Msg& m) {
    if (!r->serialized) {
        if (m.bytes.size() > r->cap) {
            std::ostringstream os;
            os << "message of " << m.bytes.size() << " bytes (ctx " << m.ctx << " src " << m.src << " tag " << m.tag
               << ") matched a receive of capacity " << r->cap << " on world rank " << r->owner;
            set_verdict("truncation", os.str());
            return;
        }
        if (!m.bytes.empty()) memcpy(r->buf, m.bytes.data(), m.bytes.size()); // real write through the posted address
    } else {
        r->payload = m.bytes;
    }
    r->st.source = m.src; r->st.tag = m.tag; r->st.bytes = (int)m.bytes.size();
    r->state = ReqState::MATCHED;
    *m.matched = true;
    poke(r->owner);
    poke(ctxs_[m.ctx]->members[m.src]);
    st_.matches++;
    if (r->src < 0 || r->tag < 0) st_.wildcard_matches++;
    add_event(r->owner, EV_MATCH, m.ctx, m.src, m.tag, (int)r->id);
    progress();
}

bool World::try_match_posted(Msg& m) {
    int w = ctxs_[m.ctx]->members[m.dst];
    std::vector<ReqPtr>& pl = posted_[w];
    for (size_t i = 0; i < pl.size(); i++) {
        if (pl[i]->state == ReqState::PENDING && env_match(*pl[i], m)) {
            for (size_t j = i + 1; j < pl.size(); j++)
                if (pl[j]->state == ReqState::PENDING && env_match(*pl[j], m)) { st_.wildcard_competition++; break; }
            ReqPtr r = pl[i];
            pl.erase(pl.begin() + i);
            complete_match(r, m);
            return true;
        }
    }
    return false;
}

void World::arrive_at(Msg&& m) {
    if (try_match_posted(m)) return;
    int w = ctxs_[m.ctx]->members[m.dst];
    st_.unexpected++;
    unexpected_[w].push_back(std::move(m));
    poke(w);
    progress();
}

void World::deliver(const std::tuple<int,int,int>& key) {
    std::deque<Msg>& q = chan_[key];
    Msg m = std::move(q.front());
    q.pop_front();
    // was some message that was sent earlier (globally) still in flight? => cross-source reordering exercised
    for (auto& kv : chan_) if (!kv.second.empty() && kv.second.front().gseq < m.gseq) { st_.delivered_out_of_global_order++; break; }
    if (m.lazy_src) {   // the transport reads the send buffer now (plain memcpy from the sender's memory)
        copy_in(m.bytes, m.lazy_src, m.lazy_len);
        m.lazy_src = nullptr;
        *m.read_done = true;
        poke(m.sender_world);
    }
    st_.deliveries++;
    if (o_.policy != POL_DES) now_ += 0.5;
    add_event(-1, EV_DELIVER, m.ctx, m.src, m.dst, m.tag);
    arrive_at(std::move(m));
}

void World::send(int ctx, int dst, int tag, const void* data, size_t nbytes, bool blocking, ReqPtr* out_req, bool buffer_owned_by_caller) {
    yield_point(EV_SEND, ctx, dst, tag, (int)nbytes);
    int n = ctx_size(ctx);
    int me = ctx_rank(ctx);
    if (me < 0) throw MpiError("send on a communicator the rank is not a member of");
    if (dst < 0 || dst >= n) throw MpiError("MPI_ERR_RANK: invalid destination rank " + std::to_string(dst));
    if (tag < 0) throw MpiError("MPI_ERR_TAG: invalid tag " + std::to_string(tag));
    Msg m;
    m.ctx = ctx; m.src = me; m.dst = dst; m.tag = tag;
    // A non-blocking send may read its buffer at any time until the request completes. With the seeded "lazy" liberty the bytes
    // are fetched from the caller's address only when the message is transferred, so a buffer that died or changed in between
    // (a by-value parameter, a temporary) delivers whatever is there then - as a transport without eager copy would.
    bool lazy = !blocking && out_req && buffer_owned_by_caller && nbytes > 0 && o_.lazy_isend_pct > 0 && choose(CK_MISC, 100) >= 100 - o_.lazy_isend_pct;
    if (lazy) { m.lazy_src = (const char*)data; m.lazy_len = nbytes; m.read_done = std::make_shared<bool>(false); st_.lazy_isends++; }
    else copy_in(m.bytes, data, nbytes);
    m.sender_world = g_rank;
    m.gseq = ++gseq_;
    m.matched = std::make_shared<bool>(false);
    std::shared_ptr<bool> matched = m.matched;
    std::shared_ptr<bool> read_done = m.read_done;
    bool rdv = false;
    if (o_.rdv_pct > 0 && (long)nbytes >= o_.rdv_min_bytes) rdv = choose(CK_RDV, 100) >= 100 - o_.rdv_pct;
    st_.sends++;
    if (rdv) st_.sends_rdv++;
    if (dst == me) st_.self_sends++;
    progress();
    if (!o_.latency && !lazy) {
        arrive_at(std::move(m));
    } else {
        std::tuple<int,int,int> key(ctx, me, dst);
        Task& t = *tasks_[g_rank];
        double lat = 1.0 + choose(CK_LAT, o_.max_latency + 1);
        double& last = chan_last_arrive_[key];
        m.arrive = std::max(last, t.vt + lat);
        last = m.arrive;
        if (!chan_prio_.count(key)) chan_prio_[key] = (o_.policy == POL_PCT) ? 1000 + choose(CK_PRIO, 1000) + 0.0001 * (double)chan_prio_.size() : 0;
        chan_[key].push_back(std::move(m));
    }
    check_abort();
    if (blocking) {
        if (rdv && !*matched) {
            st_.rdv_blocked++;
            block_until([matched] { return *matched; }, EV_SEND, dst, tag);
        }
    } else if (out_req) {
        ReqPtr r = std::make_shared<ReqState>();
        r->kind = ReqState::SEND; r->ctx = ctx; r->owner = g_rank; r->id = ++reqid_;
        r->send_matched = rdv ? matched : (lazy ? read_done : std::make_shared<bool>(true));
        r->st.source = me; r->st.tag = tag;
        *out_req = r;
    }
}

ReqPtr World::post_recv(int ctx, int src, int tag, char* buf, size_t cap, bool serialized,
                        std::function<void(const std::string&)> unpack) {
    yield_point(EV_POSTRECV, ctx, src, tag, (int)cap);
    int n = ctx_size(ctx);
    int me = ctx_rank(ctx);
    if (me < 0) throw MpiError("receive on a communicator the rank is not a member of");
    if (src >= n) throw MpiError("MPI_ERR_RANK: invalid source rank " + std::to_string(src));
    ReqPtr r = std::make_shared<ReqState>();
    r->kind = ReqState::RECV; r->ctx = ctx; r->src = src; r->tag = tag; r->owner = g_rank;
    r->buf = buf; r->cap = cap; r->serialized = serialized; r->unpack = std::move(unpack); r->id = ++reqid_;
    progress();
    std::deque<Msg>& uq = unexpected_[g_rank];
    for (size_t i = 0; i < uq.size(); i++) {
        if (env_match(*r, uq[i])) {
            Msg m = std::move(uq[i]);
            uq.erase(uq.begin() + i);
            complete_match(r, m);
            check_abort();
            return r;
        }
    }
    posted_[g_rank].push_back(r);
    return r;
}

static void finish_req(ReqState& r, MsgStatus* st) {
    if (r.kind == ReqState::RECV && r.state == ReqState::MATCHED) {
        if (r.serialized && r.unpack) r.unpack(r.payload);
        r.state = ReqState::DONE;
    } else if (r.kind == ReqState::RECV && r.state == ReqState::CANCELLED) {
        r.st.cancelled = true;
        r.state = ReqState::CANCELLED_DONE;
    } else {
        r.state = ReqState::DONE;
    }
    if (st) *st = r.st;
}

static bool req_ready(const ReqState& r) {
    if (r.kind == ReqState::SEND) return *r.send_matched;
    return r.state == ReqState::MATCHED || r.state == ReqState::CANCELLED;
}

// A call that makes no MPI call in the real library (test() on an inactive request). It is not a yield point, but a rank
// that spins on such calls alone must not starve the simulation: every 64th consecutive one is turned into a failed poll.
void World::idle_tick() {
    if (g_rank < 0) return;
    Task& t = *tasks_[g_rank];
    if (++t.soft_calls >= 64) {
        yield_point(-1);
        add_event(g_rank, EV_TEST_FAIL, 0, 0, 0, 0);
        st_.tests_fail++;
        failed_poll();
    }
}

bool World::test(const ReqPtr& r, MsgStatus* st) {
    if (!r || r->state == ReqState::DONE || r->state == ReqState::CANCELLED_DONE) { idle_tick(); return false; } // inactive: no MPI call
    yield_point(-1);
    if (req_ready(*r)) {
        add_event(g_rank, EV_TEST_OK, (int)r->id, 0, 0, 0);
        finish_req(*r, st);
        st_.tests_ok++;
        progress();
        return true;
    }
    add_event(g_rank, EV_TEST_FAIL, (int)r->id, 0, 0, 0);
    st_.tests_fail++;
    failed_poll();
    return false;
}

void World::wait(const ReqPtr& r, MsgStatus* st) {
    if (!r || r->state == ReqState::DONE || r->state == ReqState::CANCELLED_DONE) return;
    yield_point(EV_WAIT, (int)r->id);
    ReqPtr rr = r;
    block_until([rr] { return req_ready(*rr); }, EV_WAIT, (int)r->id);
    finish_req(*r, st);
    progress();
}

void World::cancel(const ReqPtr& r) {
    if (!r) return;
    if (r->state == ReqState::DONE || r->state == ReqState::CANCELLED_DONE)
        throw MpiError("MPI_ERR_REQUEST: cancel on a completed request");
    yield_point(EV_CANCEL, (int)r->id);
    if (r->kind == ReqState::RECV && r->state == ReqState::PENDING) {
        std::vector<ReqPtr>& pl = posted_[r->owner];
        pl.erase(std::remove(pl.begin(), pl.end(), r), pl.end());
        r->state = ReqState::CANCELLED;
        st_.cancels_pending++;
    } else {
        st_.cancels_matched++;
    }
    progress();
}

bool World::iprobe(int ctx, int src, int tag, MsgStatus* st, bool blocking) {
    yield_point(EV_PROBE, ctx, src, tag);
    ReqState pat; pat.ctx = ctx; pat.src = src; pat.tag = tag;
    int me = g_rank;
    auto find = [this, &pat, me, st]() -> bool {
        for (auto& m : unexpected_[me]) if (env_match(pat, m)) { if (st) { st->source = m.src; st->tag = m.tag; st->bytes = (int)m.bytes.size(); } return true; }
        return false;
    };
    if (find()) { progress(); return true; }
    if (!blocking) { failed_poll(); return false; }
    block_until(find, EV_PROBE, src, tag);
    find();
    return true;
}

// --- MPI core: collectives ---------------------------------------------------------------------------
World::Coll& World::coll_arrive(int ctx, int kind, int root, long nbytes, int* me_out) {
    yield_point(EV_COLL_ARRIVE, ctx, kind, root, (int)nbytes);
    int n = ctx_size(ctx);
    int me = ctx_rank(ctx);
    if (me < 0) throw MpiError("collective on a communicator the rank is not a member of");
    if (root < 0 || root >= n) throw MpiError("MPI_ERR_ROOT: invalid root " + std::to_string(root));
    Ctx& C = *ctxs_[ctx];
    long k = C.coll_seq[me]++;
    Coll& c = C.colls[k];
    if (c.arrived == 0) {
        c.seq = k; c.kind = kind; c.root = root; c.nbytes = nbytes; c.n = n;
        c.here.assign(n, 0); c.contrib.assign(n, std::string());
    } else {
        bool bad = c.kind != kind || c.root != root;
        if (!bad && c.nbytes >= 0 && nbytes >= 0 && c.nbytes != nbytes) bad = true;
        if (c.nbytes < 0 && nbytes >= 0) c.nbytes = nbytes;
        if (bad) {
            std::ostringstream os;
            os << "collective #" << k << " on context " << ctx << ": rank " << me << " (world " << g_rank << ") calls "
               << coll_name(kind) << "(root=" << root << ", bytes=" << nbytes << ") but another rank called "
               << coll_name(c.kind) << "(root=" << c.root << ", bytes=" << c.nbytes << ")";
            // same collective, same root, different byte counts: the ranks disagree about the size of the buffer -
            // in real MPI an erroneous call whose receivers read or write beyond what was transferred (memory-unsafe)
            fail((c.kind == kind && c.root == root) ? "collective-count-mismatch" : "collective-mismatch", os.str());
        }
    }
    c.here[me] = 1;
    c.arrived++;
    st_.collectives++;
    progress();
    if (me_out) *me_out = me;
    return c;
}

void World::coll_leave(int ctx, Coll& c, int me) {
    (void)me;
    add_event(g_rank, EV_COLL_LEAVE, ctx, c.kind, (int)c.seq, 0);
    c.left++;
    progress();
    if (c.left == c.n) ctxs_[ctx]->colls.erase(c.seq);
}

void World::barrier(int ctx) {
    int me;
    Coll& c = coll_arrive(ctx, COLL_BARRIER, 0, 0, &me);
    Coll* pc = &c;
    block_until([pc] { return pc->arrived == pc->n; }, EV_COLL_ARRIVE, ctx, COLL_BARRIER);
    coll_leave(ctx, c, me);
}

void World::bcast(int ctx, int root, char* buf, size_t nbytes, bool known_size, std::string* ser) {
    int me;
    Coll& c = coll_arrive(ctx, COLL_BCAST, root, known_size ? (long)nbytes : -1, &me);
    Coll* pc = &c;
    if (me == root) {
        if (ser) c.root_data = *ser; else copy_in(c.root_data, buf, nbytes);
        c.root_dep = true;
        progress();
        bool waits = false;
        if (o_.bcast_wait_pct > 0 && c.n > 1) waits = choose(CK_BCASTWAIT, 100) >= 100 - o_.bcast_wait_pct;
        if (waits) { st_.bcast_root_waited++; block_until([pc] { return pc->arrived == pc->n; }, EV_COLL_ARRIVE, ctx, COLL_BCAST); }
    } else {
        block_until([pc] { return pc->root_dep; }, EV_COLL_ARRIVE, ctx, COLL_BCAST);
        if (ser) *ser = c.root_data;
        else if (nbytes) memcpy(buf, c.root_data.data(), std::min(nbytes, c.root_data.size())); // real write into the caller's buffer
    }
    coll_leave(ctx, c, me);
}

void World::reduce(int ctx, int root, const char* in, char* out, size_t count, size_t esize, bool all,
                   const std::function<void(char*, const char*, size_t)>& combine) {
    int me;
    size_t nb = count * esize;
    Coll& c = coll_arrive(ctx, all ? COLL_ALLREDUCE : COLL_REDUCE, all ? 0 : root, (long)nb, &me);
    Coll* pc = &c;
    copy_in(c.contrib[me], in, nb); // real read of count*esize bytes from the caller's buffer
    auto compute = [this, pc, nb, count, &combine]() {
        std::vector<int> order(pc->n);
        for (int i = 0; i < pc->n; i++) order[i] = i;
        if (o_.reduce_shuffle && pc->n > 1) {
            bool moved = false;
            for (int i = pc->n - 1; i > 0; i--) { int j = choose(CK_REDUCEORD, i + 1); if (j) { std::swap(order[i], order[i - j]); moved = true; } }
            if (moved) st_.reduce_shuffled++;
        }
        pc->result = pc->contrib[order[0]];
        if (nb) for (int i = 1; i < pc->n; i++) combine(&pc->result[0], pc->contrib[order[i]].data(), count);
        pc->result_ready = true;
    };
    if (all) {
        block_until([pc] { return pc->arrived == pc->n; }, EV_COLL_ARRIVE, ctx, COLL_ALLREDUCE);
        if (!c.result_ready) compute();
        if (nb) memcpy(out, c.result.data(), nb);
    } else if (me == root) {
        block_until([pc] { return pc->arrived == pc->n; }, EV_COLL_ARRIVE, ctx, COLL_REDUCE);
        compute();
        if (nb) memcpy(out, c.result.data(), nb);
        progress();
    } else {
        bool early = true;
        if (o_.leave_early_pct < 100) early = o_.leave_early_pct > 0 && choose(CK_LEAVEEARLY, 100) >= 100 - o_.leave_early_pct;
        if (early) st_.reduce_left_early++;
        else block_until([pc] { return pc->result_ready; }, EV_COLL_ARRIVE, ctx, COLL_REDUCE);
    }
    coll_leave(ctx, c, me);
}

void World::gather(int ctx, int root, const char* in, size_t nbytes, std::vector<std::string>* out, bool all) {
    int me;
    Coll& c = coll_arrive(ctx, all ? COLL_ALLGATHER : COLL_GATHER, all ? 0 : root, -1, &me);
    Coll* pc = &c;
    copy_in(c.contrib[me], in, nbytes);
    if (all || me == root) {
        block_until([pc] { return pc->arrived == pc->n; }, EV_COLL_ARRIVE, ctx, c.kind);
        if (out) *out = c.contrib;
    }
    coll_leave(ctx, c, me);
}

void World::scatter(int ctx, int root, const std::vector<std::string>* in, std::string* out) {
    int me;
    Coll& c = coll_arrive(ctx, COLL_SCATTER, root, -1, &me);
    Coll* pc = &c;
    if (me == root) {
        if (!in || (int)in->size() < c.n) throw MpiError("scatter: root supplied fewer values than ranks");
        c.root_vec = *in; c.root_dep = true; progress();
    } else {
        block_until([pc] { return pc->root_dep; }, EV_COLL_ARRIVE, ctx, COLL_SCATTER);
    }
    if (out) *out = c.root_vec[me];
    coll_leave(ctx, c, me);
}

int World::split(int ctx, int color, int key) {
    int me;
    Coll& c = coll_arrive(ctx, COLL_SPLIT, 0, -1, &me);
    Coll* pc = &c;
    if (c.colors.empty()) { c.colors.assign(c.n, 0); c.keys.assign(c.n, 0); c.newctx.assign(c.n, -1); }
    c.colors[me] = color; c.keys[me] = key;
    if (c.arrived == c.n) {
        std::map<int, std::vector<std::pair<std::pair<int,int>, int>>> groups; // color -> ((key, old rank), old rank)
        for (int r = 0; r < c.n; r++) if (c.colors[r] >= 0) groups[c.colors[r]].push_back({{c.keys[r], r}, r});
        for (auto& g : groups) {
            std::sort(g.second.begin(), g.second.end());
            std::unique_ptr<Ctx> nc(new Ctx);
            for (auto& e : g.second) nc->members.push_back(ctxs_[ctx]->members[e.second]);
            nc->coll_seq.assign(nc->members.size(), 0);
            int id = (int)ctxs_.size();
            ctxs_.push_back(std::move(nc));
            for (auto& e : g.second) c.newctx[e.second] = id;
        }
        c.done = true;
        st_.splits++;
        progress();
    } else {
        block_until([pc] { return pc->done; }, EV_COLL_ARRIVE, ctx, COLL_SPLIT);
    }
    int id = c.newctx[me];
    add_event(g_rank, EV_SPLIT, ctx, color, key, id);
    coll_leave(ctx, c, me);
    return id;
}

} // namespace sim
