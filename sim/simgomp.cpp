// SimGOMP: link-time replacement of the five libgomp entry points pomerol's objects reference
// (GOMP_parallel, GOMP_barrier, omp_get_num_threads, omp_get_thread_num, omp_get_max_threads).
// The outlined body of a parallel region is run once per logical thread, in a seeded order, on the
// calling rank's stack. See DESIGN.md §2.5.
#include "sim.hpp"
#include <vector>

extern "C" {

int omp_get_num_threads(void) { sim::World* w = sim::cur(); return (w && sim::cur_rank() >= 0) ? w->omp_nthr : 1; }
int omp_get_thread_num(void) { sim::World* w = sim::cur(); return (w && sim::cur_rank() >= 0) ? w->omp_tid : 0; }
// 1 keeps Eigen's own OpenMP GEMM path sequential (it is sequential in the shipped build too for the block sizes explored)
int omp_get_max_threads(void) { return 1; }
int omp_get_num_procs(void) { return 16; }
int omp_in_parallel(void) { return omp_get_num_threads() > 1; }
void omp_set_num_threads(int) {}
double omp_get_wtime(void) { sim::World* w = sim::cur(); return (w && sim::cur_rank() >= 0) ? 1e-6 * w->vt(sim::cur_rank()) : 0.0; }

void GOMP_barrier(void) {
    // Orphaned barrier (outside a team) binds to the implicit team of one thread: no-op, as in libgomp.
    // Inside a simulated team the logical threads are serialised, so a barrier inside a region cannot be honoured.
    sim::World* w = sim::cur();
    if (w && sim::cur_rank() >= 0 && w->omp_nthr > 1)
        w->fail("sim-unsupported", "GOMP_barrier inside a simulated parallel region (logical threads are serialised)");
}

void GOMP_parallel(void (*fn)(void*), void* data, unsigned num_threads, unsigned /*flags*/) {
    sim::World* w = sim::cur();
    if (!w || sim::cur_rank() < 0 || w->omp_nthr > 1) { fn(data); return; } // outside simulation / nested: team of one
    int T = num_threads ? (int)num_threads : w->opt().omp_threads;
    if (T < 1) T = 1;
    w->yield_point(sim::EV_OMP, T);
    w->stats().omp_regions++;
    if (T > w->stats().omp_max_team) w->stats().omp_max_team = T;
    std::vector<int> order(T);
    for (int i = 0; i < T; i++) order[i] = i;
    if (w->opt().omp_shuffle && T > 1) {
        bool moved = false;
        for (int i = T - 1; i > 0; i--) { int j = w->choose(sim::CK_OMPORD, i + 1); if (j) { std::swap(order[i], order[i - j]); moved = true; } }
        if (moved) w->stats().omp_shuffled++;
    }
    int save_tid = w->omp_tid, save_n = w->omp_nthr;
    struct Restore { sim::World* w; int t, n; ~Restore() { w->omp_tid = t; w->omp_nthr = n; } } restore{w, save_tid, save_n};
    w->omp_nthr = T;
    for (int i = 0; i < T; i++) {
        w->omp_tid = order[i];
        fn(data);
    }
}

} // extern "C"
