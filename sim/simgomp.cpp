// SimGOMP: link-time replacement of libgomp. pomerol's objects reference five entry points (GOMP_parallel,
// GOMP_barrier, omp_get_num_threads, omp_get_thread_num, omp_get_max_threads); the rest is provided so that a realistic
// edit of the library (another schedule clause, a critical section, a reduction, per-thread buffers) still links and runs.
// The outlined body of a parallel region is run once per logical thread, in a seeded order, on the calling rank's stack;
// dynamically scheduled loops hand out chunks to the logical threads in seeded portions. See DESIGN.md §2.5.
#include "sim.hpp"
#include <vector>
#include <cstdint>
#include <sys/mman.h>
#include <exception>
#include <cstdlib>
#include <cstdio>
#if defined(__SANITIZE_ADDRESS__)
#define GOMP_ASAN 1
#elif defined(__has_feature)
#if __has_feature(address_sanitizer)
#define GOMP_ASAN 1
#endif
#endif
#ifdef GOMP_ASAN
#include <sanitizer/common_interface_defs.h>
#include <sanitizer/asan_interface.h>
#endif
#ifdef SIM_VALGRIND
#include <valgrind/valgrind.h>
#include <map>
#endif
#if defined(__x86_64__)
extern "C" void sim_ctx_switch(void** save_sp, void* new_sp);   // sim/sim.cpp
#define GOMP_FIBERS 1
#endif
#ifdef SIM_GOMP_THREADS
// TSan build: the team consists of REAL threads (created per region, joined at its end - TSan understands pthread
// create/join, so the fork/join edges need no annotation). Only used with a single inline rank (sim::Options::inline_single).
#include <thread>
#include <mutex>
#include <condition_variable>
namespace { thread_local int tl_tid = 0; thread_local int tl_nthr = 1; std::mutex g_crit, g_loopmx, g_barmx; std::condition_variable g_barcv; int g_bar_arrived = 0; long g_bar_gen = 0; int g_team_threads = 1; thread_local long tl_singles = 0; long g_single_claimed = 0; }
#endif

namespace {
struct LoopState { long next = 0, end = 0, incr = 1, chunk = 1; bool active = false; int last_tid = 0; long region = -1; };
long g_region = 0;              // counts parallel regions; a work-sharing loop belongs to the region that initialised it
LoopState g_loop;               // one world runs at a time and logical threads are serialised: one loop is active at most
int g_requested_threads = 0;    // omp_set_num_threads() of the running rank (not preserved across ranks: pomerol never calls it)

sim::World* W() { sim::World* w = sim::cur(); return (w && sim::cur_rank() >= 0) ? w : nullptr; }

bool loop_next(long* istart, long* iend);
#ifdef SIM_GOMP_THREADS
void run_team_threads(sim::World* w, void (*fn)(void*), void* data, int T, bool combined_loop, long ls, long le, long li, long lc);
#endif

int team_size(sim::World* w, unsigned num_threads) {
    int T = num_threads ? (int)num_threads : (g_requested_threads > 0 ? g_requested_threads : w->opt().omp_threads);
    return T < 1 ? 1 : T;
}

#ifdef GOMP_FIBERS
// ---- logical threads as fibers ------------------------------------------------------------------------------------------
// Each logical thread of a team runs on its own small stack. A thread runs until it finishes or reaches a barrier inside the
// region (GOMP_barrier, the implicit barrier at the end of a work-sharing loop); the threads are run in the seeded order, and
// when every unfinished thread waits at the barrier all of them are released. Without barriers this is exactly "one thread
// after the other in a seeded order". No MPI traffic happens inside a region, so this mini-scheduler is local to the rank.
struct Fiber { long singles = 0; void* sp = nullptr; char* stack = nullptr; int tid = 0; enum { NEW, RUNNABLE, AT_BARRIER, DONE } st = NEW; void* fake = nullptr; std::exception_ptr exc; };
struct TeamRun { long single_claimed = 0; std::vector<Fiber> f; void (*fn)(void*) = nullptr; void* data = nullptr; void* sched_sp = nullptr; void* sched_fake = nullptr; int cur = -1;
                 const void* rank_bottom = nullptr; size_t rank_size = 0; sim::World* w = nullptr; };
TeamRun* g_team = nullptr;
const size_t FIBER_STACK = 512u << 10;
std::vector<char*> g_fiber_pool;
#ifdef SIM_VALGRIND
std::map<char*, unsigned> g_fiber_vg_id;   // stacks registered with valgrind (kept registered while pooled)
#endif

char* fiber_stack_alloc() {
    if (!g_fiber_pool.empty()) { char* p = g_fiber_pool.back(); g_fiber_pool.pop_back();
#ifdef GOMP_ASAN
        ASAN_UNPOISON_MEMORY_REGION(p, FIBER_STACK);
#endif
        return p; }
    void* p = mmap(nullptr, FIBER_STACK, PROT_READ | PROT_WRITE, MAP_PRIVATE | MAP_ANONYMOUS | MAP_NORESERVE, -1, 0);
    if (p == MAP_FAILED) { perror("mmap omp fiber stack"); abort(); }
    mprotect(p, 4096, PROT_NONE);
#ifdef SIM_VALGRIND
    g_fiber_vg_id[(char*)p] = VALGRIND_STACK_REGISTER((char*)p, (char*)p + FIBER_STACK);   // or memcheck takes the fiber's frames for wild accesses
#endif
    return (char*)p;
}
void fiber_stack_free(char* p) {
#ifdef GOMP_ASAN
    ASAN_UNPOISON_MEMORY_REGION(p, FIBER_STACK);
#endif
    if (g_fiber_pool.size() < 64) { g_fiber_pool.push_back(p); return; }
#ifdef SIM_VALGRIND
    { auto it = g_fiber_vg_id.find(p); if (it != g_fiber_vg_id.end()) { VALGRIND_STACK_DEREGISTER(it->second); g_fiber_vg_id.erase(it); } }
#endif
    munmap(p, FIBER_STACK);
}

void fiber_to_scheduler(Fiber& me, bool finishing) {
    TeamRun& t = *g_team;
#ifdef GOMP_ASAN
    __sanitizer_start_switch_fiber(finishing ? nullptr : &me.fake, t.rank_bottom, t.rank_size);
#endif
    sim_ctx_switch(&me.sp, t.sched_sp);
#ifdef GOMP_ASAN
    __sanitizer_finish_switch_fiber(me.fake, nullptr, nullptr);
#endif
}

void fiber_entry() {
    TeamRun& t = *g_team;
    Fiber& me = t.f[t.cur];
#ifdef GOMP_ASAN
    __sanitizer_finish_switch_fiber(nullptr, nullptr, nullptr);
#endif
    try { t.fn(t.data); } catch (...) { me.exc = std::current_exception(); }
    me.st = Fiber::DONE;
    fiber_to_scheduler(me, true);
    abort();
}

// called by a logical thread that reaches a barrier inside the region
void fiber_barrier() {
    TeamRun* t = g_team;
    if (!t || t->cur < 0) return;
    Fiber& me = t->f[t->cur];
    me.st = Fiber::AT_BARRIER;
    fiber_to_scheduler(me, false);
}

void run_team_fibers(sim::World* w, void (*fn)(void*), void* data, int T, const std::vector<int>& order) {
    TeamRun team; team.fn = fn; team.data = data; team.w = w;
    w->rank_stack(&team.rank_bottom, &team.rank_size);
    team.f.resize(T);
    for (int i = 0; i < T; i++) {
        Fiber& f = team.f[i]; f.tid = order[i]; f.stack = fiber_stack_alloc();
        uintptr_t top = ((uintptr_t)f.stack + FIBER_STACK) & ~(uintptr_t)15;
        void** sp = (void**)top;
        *--sp = nullptr; *--sp = (void*)&fiber_entry; for (int k = 0; k < 6; k++) *--sp = nullptr;
        f.sp = (void*)sp;
    }
    TeamRun* outer = g_team; g_team = &team;
    std::exception_ptr first_exc;
    for (;;) {
        bool ran = false, all_done = true;
        for (int i = 0; i < T; i++) {
            Fiber& f = team.f[i];
            if (f.st == Fiber::DONE || f.st == Fiber::AT_BARRIER) { if (f.st != Fiber::DONE) all_done = false; continue; }
            all_done = false; ran = true;
            team.cur = i; w->omp_tid = f.tid; f.st = Fiber::RUNNABLE;
#ifdef GOMP_ASAN
            __sanitizer_start_switch_fiber(&team.sched_fake, f.stack, FIBER_STACK);
#endif
            sim_ctx_switch(&team.sched_sp, f.sp);
#ifdef GOMP_ASAN
            __sanitizer_finish_switch_fiber(team.sched_fake, nullptr, nullptr);
#endif
            team.cur = -1;
            if (f.st == Fiber::DONE && f.exc && !first_exc) first_exc = f.exc;
        }
        if (first_exc) break;   // a thread threw (e.g. the world is being torn down): abandon the others
        if (all_done) break;
        if (!ran) {   // every unfinished thread waits at the barrier: release them (a finished thread never arrives - as in OpenMP, that would be a bug of the program)
            for (auto& f : team.f) if (f.st == Fiber::AT_BARRIER) f.st = Fiber::RUNNABLE;
            g_loop.active = false;   // a work-sharing loop ends at its barrier
        }
    }
    g_team = outer;
    for (auto& f : team.f) fiber_stack_free(f.stack);
    if (first_exc) std::rethrow_exception(first_exc);
}
#endif

// runs fn once per logical thread in a seeded order
void loop_init(long start, long end, long incr, long chunk) {
    g_loop.next = start; g_loop.end = end; g_loop.incr = incr ? incr : 1; g_loop.chunk = chunk > 0 ? chunk : 1; g_loop.active = true; g_loop.region = g_region;
}

void run_team(sim::World* w, void (*fn)(void*), void* data, int T, bool combined_loop = false, long ls = 0, long le = 0, long li = 1, long lc = 1) {
#ifdef SIM_GOMP_THREADS
    run_team_threads(w, fn, data, T, combined_loop, ls, le, li, lc); return;
#endif
    w->yield_point(sim::EV_OMP, T);
    g_region++;
    g_loop.active = false;
    if (combined_loop) loop_init(ls, le, li, lc);
    w->stats().omp_regions++;
    if (T > w->stats().omp_max_team) w->stats().omp_max_team = T;
    std::vector<int> order(T);
    for (int i = 0; i < T; i++) order[i] = i;
    if (w->opt().omp_shuffle && T > 1) {
        bool moved = false;
        for (int i = T - 1; i > 0; i--) { int j = w->choose(sim::CK_OMPORD, i + 1); if (j) { std::swap(order[i], order[i - j]); moved = true; } }
        if (moved) w->stats().omp_shuffled++;
    }
    struct Restore { sim::World* w; int t, n; ~Restore() { w->omp_tid = t; w->omp_nthr = n; } } restore{w, w->omp_tid, w->omp_nthr};
    w->omp_nthr = T;
    g_loop.last_tid = order[T - 1];
#ifdef GOMP_FIBERS
    if (T > 1 && !w->opt().inline_single) { run_team_fibers(w, fn, data, T, order); g_loop.active = false; return; }   // (an inline rank has no fiber stack to return to; it is only used with real threads)
#endif
    for (int i = 0; i < T; i++) {
        w->omp_tid = order[i];
        fn(data);
    }
    g_loop.active = false;
}

void parallel_loop(void (*fn)(void*), void* data, unsigned num_threads, long start, long end, long incr, long chunk) {
    sim::World* w = W();
    if (!w || w->omp_nthr > 1) { g_region++; loop_init(start, end, incr, chunk); g_loop.last_tid = w ? w->omp_tid : 0; fn(data); g_loop.active = false; return; }
    run_team(w, fn, data, team_size(w, num_threads), true, start, end, incr, chunk);
}

// work-sharing loop inside an already running region (#pragma omp for schedule(dynamic) within #pragma omp parallel):
// the first logical thread to arrive initialises the loop, the others join it
bool loop_start(long start, long end, long incr, long chunk, long* istart, long* iend) {
#ifdef SIM_GOMP_THREADS
    { std::lock_guard<std::mutex> lk(g_loopmx); if (!g_loop.active) loop_init(start, end, incr, chunk); }   // first thread to arrive initialises the loop
    return loop_next(istart, iend);
#endif
    if (!g_loop.active || g_loop.region != g_region) {
        sim::World* w = W();
        if (!w || w->omp_nthr <= 1) { g_region++; g_loop.last_tid = w ? w->omp_tid : 0; }
        loop_init(start, end, incr, chunk);
    }
    return loop_next(istart, iend);
}

#ifdef SIM_GOMP_THREADS
void run_team_threads(sim::World* w, void (*fn)(void*), void* data, int T, bool combined_loop, long ls, long le, long li, long lc) {
    w->yield_point(sim::EV_OMP, T);
    w->stats().omp_regions++;
    if (T > w->stats().omp_max_team) w->stats().omp_max_team = T;
    g_region++;
    g_loop.active = false;
    if (combined_loop) loop_init(ls, le, li, lc);
    g_loop.last_tid = -1;
    g_team_threads = T; g_bar_arrived = 0; g_single_claimed = 0;
    std::vector<std::thread> th;
    for (int i = 1; i < T; i++) th.emplace_back([=]() { tl_tid = i; tl_nthr = T; tl_singles = 0; fn(data); tl_tid = 0; tl_nthr = 1; });
    tl_tid = 0; tl_nthr = T; tl_singles = 0;
    fn(data);
    tl_nthr = 1;
    for (auto& t : th) t.join();
    g_loop.active = false;
}
#endif

bool loop_next(long* istart, long* iend) {
#ifdef SIM_GOMP_THREADS
    std::lock_guard<std::mutex> lk(g_loopmx);
    if (!g_loop.active) return false;
    {
        long remaining = g_loop.incr > 0 ? (g_loop.end - g_loop.next + g_loop.incr - 1) / g_loop.incr : (g_loop.next - g_loop.end - g_loop.incr - 1) / (-g_loop.incr);
        if (remaining <= 0) return false;
        long n = remaining < g_loop.chunk ? remaining : g_loop.chunk;
        *istart = g_loop.next; *iend = g_loop.next + n * g_loop.incr; g_loop.next = *iend;
        return true;
    }
#endif
    if (!g_loop.active) return false;
    long remaining = g_loop.incr > 0 ? (g_loop.end - g_loop.next + g_loop.incr - 1) / g_loop.incr : (g_loop.next - g_loop.end - g_loop.incr - 1) / (-g_loop.incr);
    if (remaining <= 0) return false;
    sim::World* w = W();
    // a logical thread other than the last one may stop taking chunks at a seeded point (the others were faster)
    if (w && w->omp_nthr > 1 && w->omp_tid != g_loop.last_tid && w->choose(sim::CK_OMPTEAM, 4) == 3) return false;
    long n = remaining < g_loop.chunk ? remaining : g_loop.chunk;
    *istart = g_loop.next;
    *iend = g_loop.next + n * g_loop.incr;
    g_loop.next = *iend;
    return true;
}
} // namespace

extern "C" {

#ifdef SIM_GOMP_THREADS
int omp_get_num_threads(void) { return tl_nthr; }
int omp_get_thread_num(void) { return tl_tid; }
#else
int omp_get_num_threads(void) { sim::World* w = W(); return w ? w->omp_nthr : 1; }
int omp_get_thread_num(void) { sim::World* w = W(); return w ? w->omp_tid : 0; }
#endif
// as in libgomp: an upper bound of the team size of the next parallel region (per-thread buffers are sized with it).
// Eigen's own OpenMP GEMM (which spin-waits between threads and cannot run on serialised logical threads) is switched off
// at compile time with -DEIGEN_DONT_PARALLELIZE; it is only reachable for blocks larger than about 47x47 anyway.
int omp_get_max_threads(void) { sim::World* w = W(); return w ? team_size(w, 0) : 1; }
int omp_get_num_procs(void) { sim::World* w = W(); int n = w ? w->opt().omp_procs : 16; return n < 1 ? 1 : n; }   // an environment parameter: may be smaller than the team
int omp_in_parallel(void) { return omp_get_num_threads() > 1; }
void omp_set_num_threads(int n) { g_requested_threads = n; }
int omp_get_dynamic(void) { return 0; }
void omp_set_dynamic(int) {}
int omp_get_nested(void) { return 0; }
int omp_get_level(void) { return omp_get_num_threads() > 1 ? 1 : 0; }
int omp_get_thread_limit(void) { return 1 << 20; }
double omp_get_wtime(void) { sim::World* w = W(); return w ? 1e-6 * w->vt(sim::cur_rank()) : 0.0; }
double omp_get_wtick(void) { return 1e-6; }
// locks: logical threads are serialised, a lock is always free
typedef struct { unsigned char x[4]; } sim_omp_lock_t;
void omp_init_lock(sim_omp_lock_t*) {}
void omp_destroy_lock(sim_omp_lock_t*) {}
void omp_set_lock(sim_omp_lock_t*) {}
void omp_unset_lock(sim_omp_lock_t*) {}
int omp_test_lock(sim_omp_lock_t*) { return 1; }

static void team_barrier() {
#ifdef SIM_GOMP_THREADS
    if (tl_nthr <= 1) return;
    std::unique_lock<std::mutex> lk(g_barmx);
    long gen = g_bar_gen;
    if (++g_bar_arrived == g_team_threads) { g_bar_arrived = 0; g_bar_gen++; { std::lock_guard<std::mutex> l2(g_loopmx); g_loop.active = false; } g_barcv.notify_all(); }
    else g_barcv.wait(lk, [gen] { return g_bar_gen != gen; });
    return;
#else
    // Orphaned barrier (outside a team) binds to the implicit team of one thread: no-op, as in libgomp.
    sim::World* w = W();
    if (!w || w->omp_nthr <= 1) return;
#ifdef GOMP_FIBERS
    fiber_barrier();
#else
    w->fail("sim-unsupported", "barrier inside a simulated parallel region (no fiber support on this architecture)");
#endif
#endif
}
void GOMP_barrier(void) { team_barrier(); }

void GOMP_parallel(void (*fn)(void*), void* data, unsigned num_threads, unsigned /*flags*/) {
    sim::World* w = W();
#ifdef SIM_GOMP_THREADS
    if (!w || tl_nthr > 1) { fn(data); return; }
#endif
    if (!w || w->omp_nthr > 1) { fn(data); return; } // outside simulation / nested: team of one
    run_team(w, fn, data, team_size(w, num_threads));
}

// mutual exclusion is trivially satisfied by the serialised logical threads
#ifdef SIM_GOMP_THREADS
void GOMP_critical_start(void) { g_crit.lock(); }
void GOMP_critical_end(void) { g_crit.unlock(); }
void GOMP_critical_name_start(void**) { g_crit.lock(); }
void GOMP_critical_name_end(void**) { g_crit.unlock(); }
void GOMP_atomic_start(void) { g_crit.lock(); }
void GOMP_atomic_end(void) { g_crit.unlock(); }
#else
void GOMP_critical_start(void) {}
void GOMP_critical_end(void) {}
void GOMP_critical_name_start(void**) {}
void GOMP_critical_name_end(void**) {}
void GOMP_atomic_start(void) {}
void GOMP_atomic_end(void) {}
#endif
// 'single': the first thread of the team that reaches the k-th single construct of the region executes it
bool GOMP_single_start(void) {
#ifdef SIM_GOMP_THREADS
    if (tl_nthr <= 1) return true;
    std::lock_guard<std::mutex> lk(g_loopmx);
    long k = ++tl_singles;
    if (k > g_single_claimed) { g_single_claimed = k; return true; }
    return false;
#else
    sim::World* w = W();
    if (!w || w->omp_nthr <= 1) return true;
#ifdef GOMP_FIBERS
    if (g_team && g_team->cur >= 0) {
        long k = ++g_team->f[g_team->cur].singles;
        if (k > g_team->single_claimed) { g_team->single_claimed = k; return true; }
        return false;
    }
#endif
    return w->omp_tid == 0;
#endif
}
void GOMP_ordered_start(void) {}
void GOMP_ordered_end(void) {}

// sections: handed out one by one like chunks of a dynamic loop of length 'count' (1-based section numbers, 0 = none left)
static unsigned sections_next_locked() {
    long s, e;
    if (!loop_next(&s, &e)) return 0;
    return (unsigned)s;
}
unsigned GOMP_sections_start(unsigned count) {
    long s, e;
    return loop_start(1, (long)count + 1, 1, 1, &s, &e) ? (unsigned)s : 0;
}
unsigned GOMP_sections_next(void) { return sections_next_locked(); }
void GOMP_sections_end(void) { team_barrier(); }
void GOMP_sections_end_nowait(void) {}
void GOMP_parallel_sections(void (*fn)(void*), void* data, unsigned num_threads, unsigned count, unsigned /*flags*/) {
    parallel_loop(fn, data, num_threads, 1, (long)count + 1, 1, 1);
}
// tasks are executed immediately by the encountering thread (a legal schedule: undeferred execution)
void GOMP_task(void (*fn)(void*), void* data, void (*cpyfn)(void*, void*), long arg_size, long arg_align, bool, unsigned, void**, int, void*) {
    if (cpyfn) { std::vector<char> buf((size_t)arg_size + (size_t)arg_align); char* p = buf.data(); p += (arg_align - ((uintptr_t)p % (arg_align ? arg_align : 1))) % (arg_align ? arg_align : 1); cpyfn(p, data); fn(p); }
    else fn(data);
}
void GOMP_taskwait(void) {}
void GOMP_taskyield(void) {}
void GOMP_taskgroup_start(void) {}
void GOMP_taskgroup_end(void) {}

// dynamically / guided / runtime scheduled loops (schedule(dynamic), schedule(guided), schedule(runtime), schedule(auto))
#define SIM_PARALLEL_LOOP(name) \
    void name(void (*fn)(void*), void* data, unsigned num_threads, long start, long end, long incr, long chunk, unsigned /*flags*/) { parallel_loop(fn, data, num_threads, start, end, incr, chunk); }
SIM_PARALLEL_LOOP(GOMP_parallel_loop_dynamic)
SIM_PARALLEL_LOOP(GOMP_parallel_loop_guided)
SIM_PARALLEL_LOOP(GOMP_parallel_loop_nonmonotonic_dynamic)
SIM_PARALLEL_LOOP(GOMP_parallel_loop_nonmonotonic_guided)
void GOMP_parallel_loop_runtime(void (*fn)(void*), void* data, unsigned nt, long s, long e, long i, unsigned) { parallel_loop(fn, data, nt, s, e, i, 1); }
void GOMP_parallel_loop_nonmonotonic_runtime(void (*fn)(void*), void* data, unsigned nt, long s, long e, long i, unsigned) { parallel_loop(fn, data, nt, s, e, i, 1); }
void GOMP_parallel_loop_maybe_nonmonotonic_runtime(void (*fn)(void*), void* data, unsigned nt, long s, long e, long i, unsigned) { parallel_loop(fn, data, nt, s, e, i, 1); }
bool GOMP_loop_dynamic_next(long* s, long* e) { return loop_next(s, e); }
bool GOMP_loop_guided_next(long* s, long* e) { return loop_next(s, e); }
bool GOMP_loop_runtime_next(long* s, long* e) { return loop_next(s, e); }
bool GOMP_loop_nonmonotonic_dynamic_next(long* s, long* e) { return loop_next(s, e); }
bool GOMP_loop_nonmonotonic_guided_next(long* s, long* e) { return loop_next(s, e); }
bool GOMP_loop_nonmonotonic_runtime_next(long* s, long* e) { return loop_next(s, e); }
bool GOMP_loop_maybe_nonmonotonic_runtime_next(long* s, long* e) { return loop_next(s, e); }
bool GOMP_loop_dynamic_start(long s, long e, long i, long c, long* is, long* ie) { return loop_start(s, e, i, c, is, ie); }
bool GOMP_loop_guided_start(long s, long e, long i, long c, long* is, long* ie) { return loop_start(s, e, i, c, is, ie); }
bool GOMP_loop_runtime_start(long s, long e, long i, long* is, long* ie) { return loop_start(s, e, i, 1, is, ie); }
bool GOMP_loop_nonmonotonic_dynamic_start(long s, long e, long i, long c, long* is, long* ie) { return loop_start(s, e, i, c, is, ie); }
bool GOMP_loop_nonmonotonic_guided_start(long s, long e, long i, long c, long* is, long* ie) { return loop_start(s, e, i, c, is, ie); }
bool GOMP_loop_nonmonotonic_runtime_start(long s, long e, long i, long* is, long* ie) { return loop_start(s, e, i, 1, is, ie); }
bool GOMP_loop_maybe_nonmonotonic_runtime_start(long s, long e, long i, long* is, long* ie) { return loop_start(s, e, i, 1, is, ie); }
void GOMP_loop_end(void) { team_barrier(); }   // the implicit barrier at the end of a work-sharing loop without nowait
void GOMP_loop_end_nowait(void) {}

} // extern "C"
