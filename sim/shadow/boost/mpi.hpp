// Shadow of <boost/mpi.hpp>: the subset of boost::mpi 1.83 (and of the MPI C API) that pomerol and
// realistic edits of it use, implemented on top of the deterministic simulator (sim/sim.hpp).
// Put -I/verif/sim/shadow before the system include path. Must compile as C++11.
#ifndef SIM_SHADOW_BOOST_MPI_HPP
#define SIM_SHADOW_BOOST_MPI_HPP

#include <vector>
#include <map>
#include <list>
#include <string>
#include <sstream>
#include <complex>
#include <algorithm>
#include <numeric>
#include <functional>
#include <stdexcept>
#include <iostream>
#include <cassert>
#include <cstring>
#include <type_traits>
#include <utility>
#include <iterator>

#include <boost/config.hpp>
#include <boost/optional.hpp>
#include <boost/shared_ptr.hpp>
#include <boost/archive/binary_oarchive.hpp>
#include <boost/archive/binary_iarchive.hpp>
#include <boost/serialization/serialization.hpp>
#include <boost/serialization/vector.hpp>
#include <boost/serialization/string.hpp>
#include <boost/serialization/complex.hpp>

#include "../../sim.hpp"

// ---- MPI C API subset --------------------------------------------------------------------------------
typedef int MPI_Comm;
typedef int MPI_Datatype;
typedef int MPI_Op;
struct MPI_Status { int MPI_SOURCE, MPI_TAG, MPI_ERROR; };
struct MPI_Request { sim::ReqPtr r; };
#define MPI_COMM_WORLD ((MPI_Comm)0)
#define MPI_COMM_NULL ((MPI_Comm)-1)
#define MPI_ANY_TAG (-1)
#define MPI_ANY_SOURCE (-1)
#define MPI_SUCCESS 0
#define MPI_INT ((MPI_Datatype)1)
#define MPI_DOUBLE ((MPI_Datatype)2)
#define MPI_LONG ((MPI_Datatype)3)
#define MPI_CHAR ((MPI_Datatype)4)
#define MPI_UNSIGNED_LONG ((MPI_Datatype)5)
#define MPI_DOUBLE_COMPLEX ((MPI_Datatype)6)
#define MPI_SUM ((MPI_Op)1)
#define MPI_MAX ((MPI_Op)2)
#define MPI_MIN ((MPI_Op)3)
#define MPI_PROD ((MPI_Op)4)
#define MPI_IN_PLACE ((void*)1)
#define MPI_STATUS_IGNORE ((MPI_Status*)0)

namespace simmpi_detail {
inline size_t dt_size(MPI_Datatype t) {
    switch (t) { case 1: return sizeof(int); case 2: return sizeof(double); case 3: return sizeof(long); case 4: return 1;
                 case 5: return sizeof(unsigned long); case 6: return 2 * sizeof(double); default: throw sim::MpiError("unsupported MPI_Datatype"); }
}
template <class T> inline void comb_t(char* a, const char* x, size_t n, MPI_Op op) {
    T* A = (T*)a; const T* X = (const T*)x;
    for (size_t i = 0; i < n; i++) switch (op) {
        case 1: A[i] = A[i] + X[i]; break; case 2: A[i] = std::max(A[i], X[i]); break;
        case 3: A[i] = std::min(A[i], X[i]); break; case 4: A[i] = A[i] * X[i]; break;
        default: throw sim::MpiError("unsupported MPI_Op"); }
}
inline std::function<void(char*, const char*, size_t)> c_combiner(MPI_Datatype t, MPI_Op op) {
    return [t, op](char* a, const char* x, size_t n) {
        switch (t) { case 1: comb_t<int>(a, x, n, op); break; case 2: comb_t<double>(a, x, n, op); break;
                     case 3: comb_t<long>(a, x, n, op); break; case 4: comb_t<char>(a, x, n, op); break;
                     case 5: comb_t<unsigned long>(a, x, n, op); break;
                     case 6: comb_t<double>(a, x, 2 * n, op); break; // only MPI_SUM is meaningful
                     default: throw sim::MpiError("unsupported MPI_Datatype"); }
    };
}
} // namespace simmpi_detail

inline int MPI_Init(int*, char***) { return 0; }
inline int MPI_Finalize() { return 0; }
inline int MPI_Initialized(int* f) { *f = 1; return 0; }
inline int MPI_Finalized(int* f) { *f = 0; return 0; }
inline int MPI_Comm_rank(MPI_Comm c, int* r) { sim::World* w = sim::cur(); *r = w ? w->ctx_rank(c) : 0; return 0; }
inline int MPI_Comm_size(MPI_Comm c, int* s) { sim::World* w = sim::cur(); *s = w ? w->ctx_size(c) : 1; return 0; }
inline int MPI_Barrier(MPI_Comm c) { if (sim::World* w = sim::cur()) w->barrier(c); return 0; }
inline double MPI_Wtime() { sim::World* w = sim::cur(); return (w && sim::cur_rank() >= 0) ? 1e-6 * w->vt(sim::cur_rank()) : 0.0; }
inline int MPI_Abort(MPI_Comm, int code) { throw sim::MpiError("MPI_Abort(" + std::to_string(code) + ")"); }
inline int MPI_Bcast(void* buf, int n, MPI_Datatype t, int root, MPI_Comm c) {
    if (sim::World* w = sim::cur()) w->bcast(c, root, (char*)buf, n * simmpi_detail::dt_size(t), true, 0);
    return 0;
}
inline int MPI_Allreduce(const void* in, void* out, int n, MPI_Datatype t, MPI_Op op, MPI_Comm c) {
    sim::World* w = sim::cur();
    size_t es = simmpi_detail::dt_size(t);
    if (!w) { if (in != MPI_IN_PLACE) memcpy(out, in, n * es); return 0; }
    std::string tmp;
    if (in == MPI_IN_PLACE) { tmp.resize(n * es); if (n * es) memcpy(&tmp[0], out, n * es); in = tmp.data(); }
    w->reduce(c, 0, (const char*)in, (char*)out, n, es, true, simmpi_detail::c_combiner(t, op));
    return 0;
}
inline int MPI_Reduce(const void* in, void* out, int n, MPI_Datatype t, MPI_Op op, int root, MPI_Comm c) {
    sim::World* w = sim::cur();
    size_t es = simmpi_detail::dt_size(t);
    if (!w) { if (in != MPI_IN_PLACE) memcpy(out, in, n * es); return 0; }
    std::string tmp;
    if (in == MPI_IN_PLACE) { tmp.resize(n * es); if (n * es) memcpy(&tmp[0], out, n * es); in = tmp.data(); }
    w->reduce(c, root, (const char*)in, (char*)out, n, es, false, simmpi_detail::c_combiner(t, op));
    return 0;
}
inline int MPI_Isend(const void* buf, int n, MPI_Datatype t, int dst, int tag, MPI_Comm c, MPI_Request* req) {
    sim::cur()->send(c, dst, tag, buf, n * simmpi_detail::dt_size(t), false, &req->r); return 0;
}
inline int MPI_Send(const void* buf, int n, MPI_Datatype t, int dst, int tag, MPI_Comm c) {
    sim::cur()->send(c, dst, tag, buf, n * simmpi_detail::dt_size(t), true, 0); return 0;
}
inline int MPI_Irecv(void* buf, int n, MPI_Datatype t, int src, int tag, MPI_Comm c, MPI_Request* req) {
    req->r = sim::cur()->post_recv(c, src, tag, (char*)buf, n * simmpi_detail::dt_size(t), false, nullptr); return 0;
}
inline int MPI_Wait(MPI_Request* req, MPI_Status* st) {
    sim::MsgStatus ms; sim::cur()->wait(req->r, &ms);
    if (st) { st->MPI_SOURCE = ms.source; st->MPI_TAG = ms.tag; st->MPI_ERROR = 0; }
    return 0;
}
inline int MPI_Recv(void* buf, int n, MPI_Datatype t, int src, int tag, MPI_Comm c, MPI_Status* st) {
    MPI_Request r; MPI_Irecv(buf, n, t, src, tag, c, &r); return MPI_Wait(&r, st);
}
inline int MPI_Test(MPI_Request* req, int* flag, MPI_Status* st) {
    sim::MsgStatus ms; *flag = sim::cur()->test(req->r, &ms) ? 1 : 0;
    if (*flag && st) { st->MPI_SOURCE = ms.source; st->MPI_TAG = ms.tag; st->MPI_ERROR = 0; }
    return 0;
}
inline int MPI_Waitall(int n, MPI_Request* reqs, MPI_Status* sts) { for (int i = 0; i < n; i++) MPI_Wait(&reqs[i], sts ? &sts[i] : 0); return 0; }
inline int MPI_Cancel(MPI_Request* req) { sim::cur()->cancel(req->r); return 0; }
inline int MPI_Iprobe(int src, int tag, MPI_Comm c, int* flag, MPI_Status* st) {
    sim::MsgStatus ms; *flag = sim::cur()->iprobe(c, src, tag, &ms, false) ? 1 : 0;
    if (*flag && st) { st->MPI_SOURCE = ms.source; st->MPI_TAG = ms.tag; st->MPI_ERROR = ms.bytes; }
    return 0;
}
inline int MPI_Probe(int src, int tag, MPI_Comm c, MPI_Status* st) {
    sim::MsgStatus ms; sim::cur()->iprobe(c, src, tag, &ms, true);
    if (st) { st->MPI_SOURCE = ms.source; st->MPI_TAG = ms.tag; st->MPI_ERROR = ms.bytes; }
    return 0;
}
inline int MPI_Sendrecv(const void* sb, int sn, MPI_Datatype stp, int dst, int stag, void* rb, int rn, MPI_Datatype rtp, int src, int rtag, MPI_Comm c, MPI_Status* st) {
    MPI_Request rr; MPI_Irecv(rb, rn, rtp, src, rtag, c, &rr); MPI_Request sr; MPI_Isend(sb, sn, stp, dst, stag, c, &sr); MPI_Wait(&sr, 0); return MPI_Wait(&rr, st);
}
inline int MPI_Comm_split(MPI_Comm c, int color, int key, MPI_Comm* out) { *out = sim::cur()->split(c, color, key); return 0; }
inline int MPI_Comm_dup(MPI_Comm c, MPI_Comm* out) { sim::World* w = sim::cur(); *out = w->split(c, 0, w->ctx_rank(c)); return 0; }
inline int MPI_Comm_free(MPI_Comm* c) { *c = MPI_COMM_NULL; return 0; }
inline int MPI_Gather(const void* in, int n, MPI_Datatype t, void* out, int, MPI_Datatype, int root, MPI_Comm c) {
    sim::World* w = sim::cur(); size_t nb = n * simmpi_detail::dt_size(t); std::vector<std::string> all;
    w->gather(c, root, (const char*)in, nb, &all, false);
    if (w->ctx_rank(c) == root) for (size_t i = 0; i < all.size(); i++) memcpy((char*)out + i * nb, all[i].data(), std::min(nb, all[i].size()));
    return 0;
}
inline int MPI_Allgather(const void* in, int n, MPI_Datatype t, void* out, int, MPI_Datatype, MPI_Comm c) {
    sim::World* w = sim::cur(); size_t nb = n * simmpi_detail::dt_size(t); std::vector<std::string> all;
    w->gather(c, 0, (const char*)in, nb, &all, true);
    for (size_t i = 0; i < all.size(); i++) memcpy((char*)out + i * nb, all[i].data(), std::min(nb, all[i].size()));
    return 0;
}

// ---- boost::mpi subset -------------------------------------------------------------------------------
namespace boost { namespace mpi {

typedef sim::MpiError exception;

const int any_source = -1;
const int any_tag = -1;

namespace threading { enum level { single = 0, funneled = 1, serialized = 2, multiple = 3 }; }

class environment {
public:
    environment(bool = true) {}
    environment(int&, char**&, bool = true) {}
    environment(threading::level, bool = true) {}
    environment(int&, char**&, threading::level, bool = true) {}
    static bool initialized() { return true; }
    static bool finalized() { return false; }
    static int max_tag() { return 32767; }
    static int collectives_tag() { return 32768; }
    static std::string processor_name() { return "simnode"; }
    static threading::level thread_level() { return threading::single; }
    static bool is_main_thread() { return true; }
    static void abort(int code) { throw exception("environment::abort(" + std::to_string(code) + ")"); }
};

template <class T> struct is_mpi_datatype
    : std::integral_constant<bool, std::is_arithmetic<T>::value || std::is_enum<T>::value> {};
template <class T> struct is_mpi_datatype<std::complex<T> > : std::integral_constant<bool, std::is_floating_point<T>::value> {};
template <class A, class B> struct is_mpi_datatype<std::pair<A, B> >
    : std::integral_constant<bool, is_mpi_datatype<A>::value && is_mpi_datatype<B>::value> {};

template <class T> struct maximum { T operator()(const T& a, const T& b) const { return a < b ? b : a; } };
template <class T> struct minimum { T operator()(const T& a, const T& b) const { return b < a ? b : a; } };
template <class T> struct bitwise_and { T operator()(const T& a, const T& b) const { return a & b; } };
template <class T> struct bitwise_or { T operator()(const T& a, const T& b) const { return a | b; } };
template <class T> struct bitwise_xor { T operator()(const T& a, const T& b) const { return a ^ b; } };
template <class T> struct logical_xor { T operator()(const T& a, const T& b) const { return (a || b) && !(a && b); } };

namespace detail {
template <class T> inline std::string pack(const T& v) {
    std::ostringstream os(std::ios::binary);
    { boost::archive::binary_oarchive oa(os, boost::archive::no_header); oa << v; }
    return os.str();
}
template <class T> inline void unpack(const std::string& s, T& v) {
    std::istringstream is(s, std::ios::binary);
    boost::archive::binary_iarchive ia(is, boost::archive::no_header);
    ia >> v;
}
inline sim::World& W() {
    sim::World* w = sim::cur();
    if (!w || sim::cur_rank() < 0) throw exception("SimMPI: communication outside a simulated rank");
    return *w;
}
inline bool in_sim() { return sim::cur() && sim::cur_rank() >= 0; }
} // namespace detail

class status {
public:
    status() {}
    explicit status(const sim::MsgStatus& s) : s_(s) {}
    int source() const { return s_.source; }
    int tag() const { return s_.tag; }
    int error() const { return 0; }
    bool cancelled() const { return s_.cancelled; }
    template <class T> optional<int> count() const {
        if (!is_mpi_datatype<T>::value) return optional<int>();
        return optional<int>((int)(s_.bytes / sizeof(T)));
    }
private:
    sim::MsgStatus s_;
};

class request {
public:
    request() {}
    explicit request(const sim::ReqPtr& r) : r_(r) {}
    status wait() { sim::MsgStatus s; if (r_) detail::W().wait(r_, &s); return status(s); }
    optional<status> test() {
        if (!r_) { if (detail::in_sim()) sim::cur()->idle_tick(); return optional<status>(); }
        sim::MsgStatus s;
        if (detail::W().test(r_, &s)) return optional<status>(status(s));
        return optional<status>();
    }
    void cancel() { if (r_) detail::W().cancel(r_); }
    bool active() const { return r_ && r_->state != sim::ReqState::DONE && r_->state != sim::ReqState::CANCELLED_DONE; }
    bool trivial() const { return true; }
    sim::ReqPtr r_;
};

enum comm_create_kind { comm_duplicate, comm_take_ownership, comm_attach };

class communicator {
public:
    communicator() : ctx_(0) {}
    communicator(const MPI_Comm& c, comm_create_kind = comm_attach) : ctx_(c) {}
    operator MPI_Comm() const { return ctx_; }
    operator bool() const { return ctx_ >= 0; }
    int rank() const { return detail::in_sim() ? sim::cur()->ctx_rank(ctx_) : 0; }
    int size() const { return detail::in_sim() ? sim::cur()->ctx_size(ctx_) : 1; }
    void barrier() const { if (detail::in_sim()) sim::cur()->barrier(ctx_); }
    communicator split(int color) const { return split(color, rank()); }
    communicator split(int color, int key) const {
        if (!detail::in_sim()) return *this;
        return communicator(detail::W().split(ctx_, color, key));
    }
    void abort(int code) const { throw exception("communicator::abort(" + std::to_string(code) + ")"); }
    bool has_cartesian_topology() const { return false; }

    // --- blocking send
    template <class T> void send(int dest, int tag, const T& value) const { send_impl(dest, tag, value, is_mpi_datatype<T>()); }
    template <class T> void send(int dest, int tag, const T* values, int n) const { array_send_impl(dest, tag, values, n, is_mpi_datatype<T>(), true, 0); }
    void send(int dest, int tag) const { detail::W().send(ctx_, dest, tag, 0, 0, true, 0); }
    // --- non-blocking send
    template <class T> request isend(int dest, int tag, const T& value) const { return isend_impl(dest, tag, value, is_mpi_datatype<T>()); }
    template <class T> request isend(int dest, int tag, const T* values, int n) const { sim::ReqPtr r; array_send_impl(dest, tag, values, n, is_mpi_datatype<T>(), false, &r); return request(r); }
    request isend(int dest, int tag) const { sim::ReqPtr r; detail::W().send(ctx_, dest, tag, 0, 0, false, &r); return request(r); }
    // --- non-blocking receive
    template <class T> request irecv(int source, int tag, T& value) const { return irecv_impl(source, tag, value, is_mpi_datatype<T>()); }
    template <class T> request irecv(int source, int tag, T* values, int n) const { return array_irecv_impl(source, tag, values, n, is_mpi_datatype<T>()); }
    request irecv(int source, int tag) const { return request(detail::W().post_recv(ctx_, source, tag, 0, 0, false, nullptr)); }
    // --- blocking receive
    template <class T> status recv(int source, int tag, T& value) const { request r = irecv(source, tag, value); return r.wait(); }
    template <class T> status recv(int source, int tag, T* values, int n) const { request r = irecv(source, tag, values, n); return r.wait(); }
    status recv(int source, int tag) const { request r = irecv(source, tag); return r.wait(); }
    // --- probe
    status probe(int source = any_source, int tag = any_tag) const { sim::MsgStatus s; detail::W().iprobe(ctx_, source, tag, &s, true); return status(s); }
    optional<status> iprobe(int source = any_source, int tag = any_tag) const {
        sim::MsgStatus s;
        if (detail::W().iprobe(ctx_, source, tag, &s, false)) return optional<status>(status(s));
        return optional<status>();
    }
    int ctx() const { return ctx_; }
private:
    int ctx_;
    template <class T> void send_impl(int dest, int tag, const T& v, std::true_type) const { detail::W().send(ctx_, dest, tag, &v, sizeof(T), true, 0); }
    template <class T> void send_impl(int dest, int tag, const T& v, std::false_type) const { std::string s = detail::pack(v); detail::W().send(ctx_, dest, tag, s.data(), s.size(), true, 0); }
    template <class T> request isend_impl(int dest, int tag, const T& v, std::true_type) const { sim::ReqPtr r; detail::W().send(ctx_, dest, tag, &v, sizeof(T), false, &r); return request(r); }
    template <class T> request isend_impl(int dest, int tag, const T& v, std::false_type) const { sim::ReqPtr r; std::string s = detail::pack(v); detail::W().send(ctx_, dest, tag, s.data(), s.size(), false, &r, /*buffer_owned_by_caller=*/false); return request(r); }
    template <class T> void array_send_impl(int dest, int tag, const T* v, int n, std::true_type, bool blocking, sim::ReqPtr* r) const { detail::W().send(ctx_, dest, tag, v, sizeof(T) * (size_t)n, blocking, r); }
    template <class T> void array_send_impl(int dest, int tag, const T* v, int n, std::false_type, bool blocking, sim::ReqPtr* r) const {
        std::vector<T> tmp(v, v + n); std::string s = detail::pack(tmp); detail::W().send(ctx_, dest, tag, s.data(), s.size(), blocking, r, /*buffer_owned_by_caller=*/false);
    }
    template <class T> request irecv_impl(int source, int tag, T& v, std::true_type) const { return request(detail::W().post_recv(ctx_, source, tag, (char*)&v, sizeof(T), false, nullptr)); }
    template <class T> request irecv_impl(int source, int tag, T& v, std::false_type) const {
        T* p = &v;
        return request(detail::W().post_recv(ctx_, source, tag, 0, 0, true, [p](const std::string& s) { detail::unpack(s, *p); }));
    }
    template <class T> request array_irecv_impl(int source, int tag, T* v, int n, std::true_type) const { return request(detail::W().post_recv(ctx_, source, tag, (char*)v, sizeof(T) * (size_t)n, false, nullptr)); }
    template <class T> request array_irecv_impl(int source, int tag, T* v, int n, std::false_type) const {
        return request(detail::W().post_recv(ctx_, source, tag, 0, 0, true, [v, n](const std::string& s) {
            std::vector<T> tmp; detail::unpack(s, tmp);
            if ((int)tmp.size() > n) throw exception("MPI_ERR_TRUNCATE: serialized array longer than receive buffer");
            std::copy(tmp.begin(), tmp.end(), v); }));
    }
};

inline bool operator==(const communicator& a, const communicator& b) { return a.ctx() == b.ctx(); }
inline bool operator!=(const communicator& a, const communicator& b) { return a.ctx() != b.ctx(); }

// ---- request helpers
template <class It> inline void wait_all(It first, It last) { for (; first != last; ++first) first->wait(); }
template <class It> inline bool test_all(It first, It last) {
    bool all = true;
    for (; first != last; ++first) if (first->active() && !first->test()) all = false;
    return all;
}
template <class It> inline optional<std::pair<status, It> > test_any(It first, It last) {
    for (It it = first; it != last; ++it) if (it->active()) { optional<status> s = it->test(); if (s) return std::make_pair(*s, it); }
    return optional<std::pair<status, It> >();
}
template <class It> inline It wait_some(It first, It last) {
    // waits until at least one request has completed and moves the completed ones to the end (as boost::mpi::wait_some does)
    if (first == last) return last;
    for (;;) {
        std::vector<bool> done; bool any = false;
        for (It it = first; it != last; ++it) { bool d = !it->active() || (bool)it->test(); done.push_back(d); any = any || d; }
        if (any) { std::vector<typename std::iterator_traits<It>::value_type> pend, fin; size_t k = 0;
                   for (It it = first; it != last; ++it, ++k) (done[k] ? fin : pend).push_back(*it);
                   It out = first; for (auto& r : pend) *out++ = r; It mid = out; for (auto& r : fin) *out++ = r; return mid; }
    }
}
template <class It> inline std::pair<status, It> wait_any(It first, It last) {
    if (first == last) throw exception("wait_any on an empty range");
    for (;;) for (It it = first; it != last; ++it) if (it->active()) { optional<status> s = it->test(); if (s) return std::make_pair(*s, it); }
}

// ---- collectives
namespace detail {
template <class T> inline void bcast_impl(const communicator& c, T& v, int root, std::true_type) { W().bcast(c.ctx(), root, (char*)&v, sizeof(T), true, 0); }
template <class T> inline void bcast_impl(const communicator& c, T& v, int root, std::false_type) {
    std::string s;
    if (c.rank() == root) s = pack(v);
    W().bcast(c.ctx(), root, 0, 0, false, &s);
    if (c.rank() != root) unpack(s, v);
}
template <class T> inline void bcast_arr(const communicator& c, T* v, int n, int root, std::true_type) { W().bcast(c.ctx(), root, (char*)v, sizeof(T) * (size_t)n, true, 0); }
template <class T> inline void bcast_arr(const communicator& c, T* v, int n, int root, std::false_type) {
    std::string s;
    if (c.rank() == root) { std::vector<T> tmp(v, v + n); s = pack(tmp); }
    W().bcast(c.ctx(), root, 0, 0, false, &s);
    if (c.rank() != root) { std::vector<T> tmp; unpack(s, tmp); if ((int)tmp.size() != n) throw exception("broadcast: element count differs between ranks"); std::copy(tmp.begin(), tmp.end(), v); }
}
template <class T, class Op> inline std::function<void(char*, const char*, size_t)> combiner(Op op) {
    static_assert(std::is_trivially_copyable<T>::value || is_mpi_datatype<T>::value, "SimMPI reduce supports only MPI datatypes");
    return [op](char* a, const char* x, size_t n) { T* A = (T*)a; const T* X = (const T*)x; for (size_t i = 0; i < n; i++) A[i] = op(A[i], X[i]); };
}
} // namespace detail

template <class T> inline void broadcast(const communicator& c, T& value, int root) { if (detail::in_sim()) detail::bcast_impl(c, value, root, is_mpi_datatype<T>()); }
template <class T> inline void broadcast(const communicator& c, T* values, int n, int root) { if (detail::in_sim()) detail::bcast_arr(c, values, n, root, is_mpi_datatype<T>()); }

template <class T, class Op> inline void reduce(const communicator& c, const T* in, int n, T* out, Op op, int root) {
    if (!detail::in_sim()) { std::copy(in, in + n, out); return; }
    detail::W().reduce(c.ctx(), root, (const char*)in, (char*)out, (size_t)n, sizeof(T), false, detail::combiner<T>(op));
}
template <class T, class Op> inline void reduce(const communicator& c, const T* in, int n, Op op, int root) {
    if (!detail::in_sim()) return;
    detail::W().reduce(c.ctx(), root, (const char*)in, 0, (size_t)n, sizeof(T), false, detail::combiner<T>(op));
}
template <class T, class Op> inline void reduce(const communicator& c, const T& in, T& out, Op op, int root) { reduce(c, &in, 1, &out, op, root); }
template <class T, class Op> inline void reduce(const communicator& c, const T& in, Op op, int root) { reduce(c, &in, 1, op, root); }
template <class T, class Op> inline void reduce(const communicator& c, const std::vector<T>& in, std::vector<T>& out, Op op, int root) {
    if (c.rank() == root) out.resize(in.size());
    reduce(c, in.data(), (int)in.size(), out.data(), op, root);
}

template <class T, class Op> inline void all_reduce(const communicator& c, const T* in, int n, T* out, Op op) {
    if (!detail::in_sim()) { std::copy(in, in + n, out); return; }
    detail::W().reduce(c.ctx(), 0, (const char*)in, (char*)out, (size_t)n, sizeof(T), true, detail::combiner<T>(op));
}
template <class T, class Op> inline void all_reduce(const communicator& c, const T& in, T& out, Op op) { all_reduce(c, &in, 1, &out, op); }
template <class T, class Op> inline T all_reduce(const communicator& c, const T& in, Op op) { T out; all_reduce(c, &in, 1, &out, op); return out; }

template <class T> inline void gather(const communicator& c, const T& in, std::vector<T>& out, int root) {
    if (!detail::in_sim()) { out.assign(1, in); return; }
    std::vector<std::string> all; std::string s = detail::pack(in);
    detail::W().gather(c.ctx(), root, s.data(), s.size(), &all, false);
    if (c.rank() == root) { out.resize(all.size()); for (size_t i = 0; i < all.size(); i++) detail::unpack(all[i], out[i]); }
}
template <class T> inline void gather(const communicator& c, const T& in, int root) { std::vector<T> dummy; gather(c, in, dummy, root); }
template <class T> inline void all_gather(const communicator& c, const T& in, std::vector<T>& out) {
    if (!detail::in_sim()) { out.assign(1, in); return; }
    std::vector<std::string> all; std::string s = detail::pack(in);
    detail::W().gather(c.ctx(), 0, s.data(), s.size(), &all, true);
    out.resize(all.size()); for (size_t i = 0; i < all.size(); i++) detail::unpack(all[i], out[i]);
}
template <class T> inline void scatter(const communicator& c, const std::vector<T>& in, T& out, int root) {
    if (!detail::in_sim()) { out = in.at(0); return; }
    std::vector<std::string> v; std::string s;
    if (c.rank() == root) for (size_t i = 0; i < in.size(); i++) v.push_back(detail::pack(in[i]));
    detail::W().scatter(c.ctx(), root, &v, &s);
    detail::unpack(s, out);
}
template <class T> inline void scatter(const communicator& c, T& out, int root) { std::vector<T> none; scatter(c, none, out, root); }

template <class T> inline void all_to_all(const communicator& c, const std::vector<T>& in, std::vector<T>& out) {
    if (!detail::in_sim()) { out = in; return; }
    // every rank gathers everything and picks the column addressed to it
    std::vector<std::string> all; std::string s = detail::pack(in);
    detail::W().gather(c.ctx(), 0, s.data(), s.size(), &all, true);
    out.resize(all.size());
    for (size_t i = 0; i < all.size(); i++) { std::vector<T> row; detail::unpack(all[i], row); out[i] = row.at(c.rank()); }
}

class timer {
public:
    timer() : t0_(MPI_Wtime()) {}
    void restart() { t0_ = MPI_Wtime(); }
    double elapsed() const { return MPI_Wtime() - t0_; }
private:
    double t0_;
};

}} // namespace boost::mpi

#endif
