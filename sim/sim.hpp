// Deterministic simulator core: cooperative ranks (ucontext), seeded scheduler, simulated MPI.
// Everything nondeterministic is decided by World::choose(); one seed == one execution.
#pragma once
#include <cstdint>
#include <cstddef>
#include <string>
#include <vector>
#include <deque>
#include <map>
#include <memory>
#include <functional>
#include <exception>
#include <stdexcept>

namespace sim {

// Thrown into a suspended rank when its world is torn down after a verdict.
struct Abort {};

// Error raised by SimMPI in a rank for erroneous-but-detectable MPI usage (maps to boost::mpi::exception).
struct MpiError : std::runtime_error {
    explicit MpiError(const std::string& s) : std::runtime_error(s) {}
    const char* routine() const { return "SimMPI"; }
    int result_code() const { return 1; }
    int error_class() const { return 1; }
};

enum Policy { POL_UNIFORM = 0, POL_DES = 1, POL_PCT = 2 };

// choice kinds (for the log; value 0 is always the "default / simplest" alternative)
enum ChoiceKind {
    CK_SCHED = 0, CK_LAT, CK_RDV, CK_STALL, CK_STALLLEN, CK_SPEED, CK_WORK, CK_BCASTWAIT, CK_REDUCEORD,
    CK_OMPORD, CK_PRIO, CK_PCTPOINT, CK_TIE, CK_LEAVEEARLY, CK_OMPTEAM, CK_MISC, CK__N
};
extern const char* const choice_kind_name[];

// event kinds (trace + hash)
enum EvKind {
    EV_RUN = 0, EV_DELIVER, EV_SEND, EV_POSTRECV, EV_MATCH, EV_TEST_OK, EV_TEST_FAIL, EV_WAIT, EV_CANCEL,
    EV_COLL_ARRIVE, EV_COLL_LEAVE, EV_BLOCK, EV_FINISH, EV_WORK, EV_OMP, EV_STALL, EV_SPLIT, EV_PROBE,
    EV_EXC, EV_NOTE, EV__N
};
extern const char* const ev_kind_name[];

struct Event { uint32_t step; int16_t rank; uint8_t kind; int32_t a, b, c, d; };

struct Options {
    int nranks = 1;
    uint64_t seed = 0;
    int policy = POL_UNIFORM;
    long step_cap = 200000;
    // fault / liberty switches (all off => "default schedule": lowest-numbered enabled rank, zero delay, eager)
    bool latency = false;        // messages travel: delivery is a separate scheduled event (cross-source reordering)
    int max_latency = 50;        // DES: latency in virtual us drawn from [0,max_latency]
    int rdv_pct = 0;             // % of sends that are rendezvous (block until matched)
    int rdv_min_bytes = 64;      // ... among messages of at least this size: every real MPI sends tiny messages eagerly, and code that
                                 // relies on that (a 0- or 4-byte control message sent before the receive is posted) works on every deployment
    int lazy_isend_pct = 0;      // % of non-blocking raw sends whose buffer is read only when the message is transferred (legal: the
                                 // buffer belongs to MPI until the request completes); exposes send buffers that die too early
    int stall_permille = 0;      // chance per yield that the rank is stalled
    int max_stall = 200;         // stall length in scheduling steps (or virtual us * 10 in DES)
    bool speeds = false;         // per-rank speed factors (DES)
    int bcast_wait_pct = 0;      // % of broadcasts where the root waits for all receivers
    int leave_early_pct = 100;   // % of reduce leaves that do not wait for the root
    bool reduce_shuffle = false; // seeded combination order in reduce / all_reduce
    int omp_threads = 1;         // team size used by SimGOMP when the program does not ask for one
    int omp_procs = 16;          // what omp_get_num_procs() reports: the number of processors is independent of the team size (OMP_NUM_THREADS may exceed it)
    bool omp_shuffle = false;    // seeded execution order of logical OpenMP threads
    int pct_depth = 0;           // PCT: number of priority change points
    long pct_horizon = 2000;     // PCT: change points drawn from [0,horizon)
    bool replay = false;         // take choices from replay_choices instead of the PRNG
    std::vector<int> replay_choices;
    bool keep_choices = false;   // record the choice log (always on in replay)
    size_t stack_bytes = 1u << 20;
    bool inline_single = false;  // nranks == 1 only: run the rank on the caller's stack without context switches (used by the
                                 // TSan build, where the OpenMP region runs on real threads and fibers would need extra annotations)
};

struct Stats {
    long steps = 0;
    long yields = 0;
    long sends = 0, sends_rdv = 0, rdv_blocked = 0, lazy_isends = 0;
    long deliveries = 0, delivered_out_of_global_order = 0, unexpected = 0;
    long matches = 0, self_sends = 0, wildcard_matches = 0, wildcard_competition = 0;
    long tests_ok = 0, tests_fail = 0, cancels_pending = 0, cancels_matched = 0;
    long collectives = 0, bcast_root_waited = 0, reduce_left_early = 0, reduce_shuffled = 0;
    long stalls = 0, demotions = 0;
    long omp_regions = 0, omp_shuffled = 0, omp_max_team = 0;
    long splits = 0, contexts = 1;
    long work_calls = 0;
    double vtime = 0; // virtual microseconds at the end of the run
};

struct Result {
    std::string verdict = "ok";   // ok | deadlock | hang | step-budget | collective-mismatch | truncation | exception | mpi-error | <harness oracle classes>
    std::string detail;
    uint64_t hash = 0;        // every scheduling decision and event, with step numbers (determinism gate)
    uint64_t p2p_hash = 0;    // order of point-to-point protocol events only (no collectives)
    uint64_t order_hash = 0;  // order of all events except failed polls / stalls, without step numbers (interleaving signature)
    Stats st;
    std::vector<int> choices;     // choice log (values); kinds in choice_kinds
    std::vector<uint8_t> choice_kinds;
    std::vector<std::string> rank_exceptions; // what() of an exception escaping rank r ("" if none)
};

// ---- type-erased MPI core --------------------------------------------------------------------------

struct ReqState;
typedef std::shared_ptr<ReqState> ReqPtr;

struct MsgStatus { int source = -1, tag = -1, bytes = 0; bool cancelled = false; };

struct Msg {
    int ctx, src, dst, tag;      // src/dst are ranks *within* ctx
    std::string bytes;
    uint64_t gseq;               // global send sequence number
    double arrive = 0;           // virtual arrival time (DES)
    std::shared_ptr<bool> matched; // set when matched with a receive (rendezvous senders / isend requests wait on it)
    const char* lazy_src = nullptr; // non-blocking send whose buffer has not been read yet (read at delivery)
    size_t lazy_len = 0;
    std::shared_ptr<bool> read_done;
    int sender_world = -1;
};

struct ReqState {
    enum K { RECV, SEND } kind = RECV;
    enum S { PENDING, MATCHED, DONE, CANCELLED, CANCELLED_DONE } state = PENDING;
    int ctx = 0, src = -1, tag = -1;  // receive envelope (src within ctx; -1/-1 wildcards)
    int owner = -1;                   // world rank that posted it
    char* buf = nullptr;              // raw receive: destination address given at posting time
    size_t cap = 0;                   // capacity in bytes (raw)
    bool serialized = false;          // payload kept in 'payload' and unpacked by 'unpack' at completion
    std::string payload;
    std::function<void(const std::string&)> unpack;
    MsgStatus st;
    std::shared_ptr<bool> send_matched; // SEND requests: completion flag
    uint64_t id = 0;
};

class World;
World* cur();                 // world of the calling rank (nullptr outside a simulation)
int cur_rank();               // world rank of the calling task (-1 in scheduler context)

class World {
public:
    explicit World(const Options& o);
    ~World();
    // Runs fn(rank) on every rank under the scheduler until all ranks return or a verdict is reached.
    Result run(const std::function<void(int)>& fn);

    const Options& opt() const { return o_; }
    Stats& stats() { return st_; }

    // -- scheduling primitives used by SimMPI / SimGOMP / harnesses (called from rank context)
    int choose(int kind, int n);                 // seeded choice in [0,n); n<=1 -> 0 without consuming
    void yield_point(int evkind, int a = 0, int b = 0, int c = 0, int d = 0); // atomic step boundary
    void block_until(const std::function<bool()>& pred, int evkind, int a = 0, int b = 0);
    void progress();                             // something observable changed (called by the acting rank)
    void poke(int world_rank);                   // something addressed to that rank happened
    void failed_poll();                          // the calling rank polled without success
    void idle_tick();                            // a non-yielding API call; bounds spinning on such calls
    void work(double mean_us);                   // harness: virtual job duration (yields)
    void note(int a, int b = 0, int c = 0, int d = 0); // harness event into trace/hash
    void fail(const std::string& verdict, const std::string& detail); // harness/SimMPI: end the run with this verdict (throws Abort in rank context)
    bool aborting() const { return aborting_; }
    double now() const { return now_; }
    double vt(int rank) const;
    long steps() const { return st_.steps; }
    void add_event(int rank, int kind, int a, int b, int c, int d);
    std::string format_trace(size_t max_lines = 4000) const;
    template <class F> void for_each_event(F f) const { for (size_t i = 0; i < events_.size(); i++) f(events_[i]); }

    // -- MPI core
    int ctx_size(int ctx) const;
    int ctx_rank(int ctx) const;                 // rank of the calling task within ctx (-1 if not a member)
    int ctx_world_rank(int ctx, int r) const;
    void send(int ctx, int dst, int tag, const void* data, size_t nbytes, bool blocking, ReqPtr* out_req, bool buffer_owned_by_caller = true);
    ReqPtr post_recv(int ctx, int src, int tag, char* buf, size_t cap, bool serialized,
                     std::function<void(const std::string&)> unpack);
    bool test(const ReqPtr& r, MsgStatus* st);   // yields; true once, then the request is inactive
    void wait(const ReqPtr& r, MsgStatus* st);
    void cancel(const ReqPtr& r);
    bool iprobe(int ctx, int src, int tag, MsgStatus* st, bool blocking);

    // collectives (type erased). 'combine' folds contribution b into accumulator a (both count*esize bytes)
    void barrier(int ctx);
    void bcast(int ctx, int root, char* buf, size_t nbytes, bool known_size, std::string* ser_inout);
    void reduce(int ctx, int root, const char* in, char* out, size_t count, size_t esize, bool all,
                const std::function<void(char* acc, const char* x, size_t count)>& combine);
    void gather(int ctx, int root, const char* in, size_t nbytes, std::vector<std::string>* out, bool all);
    void scatter(int ctx, int root, const std::vector<std::string>* in, std::string* out);
    int split(int ctx, int color, int key);      // returns new ctx id (or -1 for color<0)

    // SimGOMP support
    int omp_tid = 0, omp_nthr = 1;               // of the *currently running* rank (saved/restored per task)
    void rank_stack(const void** bottom, size_t* size) const;   // stack of the calling rank (for fiber annotations)

private:
    struct Task;
    struct Ctx;
    struct Coll;
    friend struct TaskEntry;
    Options o_;
    Stats st_;
    std::vector<std::unique_ptr<Task>> tasks_;
    std::vector<std::unique_ptr<Ctx>> ctxs_;
    std::map<std::tuple<int,int,int>, std::deque<Msg>> chan_;   // (ctx,src,dst) -> in flight
    std::map<std::tuple<int,int,int>, double> chan_prio_;
    std::map<std::tuple<int,int,int>, double> chan_last_arrive_;
    std::vector<std::vector<ReqPtr>> posted_;      // per world rank, posting order
    std::vector<std::deque<Msg>> unexpected_;      // per world rank, arrival order
    uint64_t rng_;
    size_t replay_pos_ = 0;
    std::vector<int> choices_;
    std::vector<uint8_t> choice_kinds_;
    std::vector<Event> events_;
    uint64_t hash_ = 1469598103934665603ULL;
    uint64_t ohash_ = 1469598103934665603ULL;
    uint64_t phash_ = 1469598103934665603ULL;
    uint64_t epoch_ = 1;
    uint64_t gseq_ = 0, reqid_ = 0;
    double now_ = 0;
    bool aborting_ = false;
    bool inline_mode_ = false;
    bool verdict_set_ = false;
    std::string verdict_, detail_;
    int running_ = -1;
    std::vector<long> pct_points_;
    double low_prio_ = 0;
    const std::function<void(int)>* fn_ = nullptr;

    uint64_t next_u64();
    void deliver(const std::tuple<int,int,int>& key);
    void arrive_at(Msg&& m);
    bool try_match_posted(Msg& m);
    void complete_match(const ReqPtr& r, Msg& m);
    void switch_to(Task& t);
    void back_to_scheduler();
    void set_verdict(const std::string& v, const std::string& d);
    Coll& coll_arrive(int ctx, int kind, int root, long nbytes, int* me_out);
    void coll_leave(int ctx, Coll& c, int me);
    void check_abort();
    static void trampoline(unsigned lo, unsigned hi);
public:
    static void trampoline_entry();
};

} // namespace sim
