// C16: the real MPIMaster / MPIWorker / mpi_skel<>::run over simulated MPI.
// One run = one world: P ranks, R consecutive dispatch rounds (on the world communicator or on the
// groups of a split), recorder jobs, history checks. DESIGN.md §3.1.
#define HC_MAIN_TU
#include <boost/mpi.hpp>
#include "common.hpp"
#include <mpi_dispatcher/mpi_dispatcher.hpp>
#include <mpi_dispatcher/mpi_skel.hpp>
#include <memory>
#include <set>

namespace mpi = boost::mpi;
using namespace pMPI;

enum Mode { M_SKEL_WORLD = 0, M_SKEL_SPLIT = 1, M_LOOP_MASTERWORKS = 2, M_LOOP_NOMASTER = 3, M_LOOP_POOL = 4, M_LOOP_SWAP = 5 };
// M_LOOP_SWAP: like M_LOOP_POOL, but ONE master object lives across the rounds and is re-armed with MPIMaster::swap (fresh task ids per round)

struct Exec { int world_rank, comm_rank; long seq; };
struct Recorder {
    std::map<std::tuple<int,int,int>, std::vector<Exec> > runs;   // (group, round, job) -> executions
    std::map<std::tuple<int,int,int>, std::map<JobId, WorkerId> > maps; // (group, round, world rank) -> returned / observed map
    std::map<std::tuple<int,int>, int> finished;                  // (group, round) -> ranks that left the round
    std::vector<std::string> inv;                                  // invariant violations seen during the run
    long seq = 0;
};
static Recorder* g_rec = nullptr;
static int g_workmean = 0;

struct RecWrap {
    int complexity; int group, round, id; const mpi::communicator* comm;
    RecWrap() : complexity(1), group(0), round(0), id(0), comm(0) {}
    void run() {
        if (g_workmean > 0) sim::cur()->work(g_workmean);
        g_rec->runs[std::make_tuple(group, round, id)].push_back(Exec{sim::cur_rank(), comm->rank(), ++g_rec->seq});
        sim::cur()->note(1000 + id, group, round, comm->rank());
    }
};

static std::vector<int> ilist(const std::string& s, char sep = ',') { std::vector<int> v; for (auto& t : hc::split(s, sep)) if (!t.empty()) v.push_back(atoi(t.c_str())); return v; }
static std::string jlist(const std::vector<int>& v, char sep = ',') { std::string o; for (size_t i = 0; i < v.size(); i++) { if (i) o += sep; o += std::to_string(v[i]); } return o; }

// task ids of one round in the pool / swap modes: the first nj entries of the configured list; the swap mode uses a fresh slice per round
static std::vector<int> round_tids(int mode, const hc::Cfg& cfg, const std::vector<int>& J, int round) {
    std::vector<int> all = ilist(cfg.s("tids")), out;
    size_t off = 0;
    if (mode == M_LOOP_SWAP) for (int r = 0; r < round; r++) off += (size_t)J[r];
    for (int j = 0; j < J[round]; j++) { size_t k = off + (size_t)j; out.push_back(k < all.size() ? all[k] : 1000 + (int)k); }
    return out;
}

// invariants on the master's public state, evaluated at every master step of the hand-written loops.
// Only necessary conditions that any correct implementation satisfies are checked - not the bookkeeping of this particular
// implementation (a first version also demanded |DispatchMap|+|JobStack| == Ntasks, "no active completion receive for an
// idle worker" and "no Finish while jobs are left"; a behaviour-preserving change that fills the map when the report
// arrives, or releases surplus workers early, tripped them: false alarms, removed).
// The probe adapts to the master's internals: it is a template selected by SFINAE on the members it reads, so a refactoring
// that changes their container types still compiles, and one that renames or removes them merely switches the probe off
// (the history checks after the run do not depend on it).
template <class M>
static auto master_invariants_impl(M& m, const char* where, int)
    -> decltype(m.JobStack.size(), m.WorkerStack.top(), m.WorkerStack.pop(), m.DispatchMap.size(), m.Ntasks, m.Nprocs, void()) {
    std::ostringstream os;
    size_t handed_out = (size_t)m.Ntasks >= m.JobStack.size() ? (size_t)m.Ntasks - m.JobStack.size() : 0;
    if (m.DispatchMap.size() > handed_out) os << where << ": DispatchMap has " << m.DispatchMap.size() << " entries but only " << handed_out << " jobs were handed out; ";
    auto ws = m.WorkerStack; std::set<long> seen;
    while (!ws.empty()) { if (!seen.insert((long)ws.top()).second) os << where << ": worker " << ws.top() << " twice in WorkerStack; "; ws.pop(); }
    if (m.WorkerStack.size() > (size_t)m.Nprocs) os << where << ": WorkerStack larger than the pool; ";
    if (!os.str().empty() && g_rec->inv.size() < 10) g_rec->inv.push_back(os.str());
}
template <class M> static void master_invariants_impl(M&, const char*, long) {}   // internals look different: no probe
static void master_invariants(MPIMaster& m, const char* where) { master_invariants_impl(m, where, 0); }

static void job_body(int group, int round, int id, const mpi::communicator& comm) {
    RecWrap w; w.group = group; w.round = round; w.id = id; w.comm = &comm; w.run();
}

// one rank of one group: R rounds on 'comm'
static void run_rounds(int mode, int group, const mpi::communicator& comm, const std::vector<int>& J, hc::Cfg& cfg, uint64_t cseed, int world_rank) {
    std::unique_ptr<MPIMaster> persistent;   // M_LOOP_SWAP: the one master object that is re-armed every round
    for (int round = 0; round < (int)J.size(); round++) {
        int nj = J[round];
        if (mode == M_SKEL_WORLD || mode == M_SKEL_SPLIT) {
            mpi_skel<RecWrap> skel;
            skel.parts.resize(nj);
            hc::Rng cr(cseed * 131 + group * 17 + round);
            int cmode = cr.below(3);
            for (int j = 0; j < nj; j++) {
                RecWrap& w = skel.parts[j];
                w.group = group; w.round = round; w.id = j; w.comm = &comm;
                w.complexity = cmode == 0 ? 1 : cmode == 1 ? 1 + cr.below(3) : 1 + cr.below(1000);
            }
            std::map<JobId, WorkerId> m = skel.run(comm, false);
            g_rec->maps[std::make_tuple(group, round, world_rank)] = m;
        } else {
            int root = (int)cfg.i("root", 0) % comm.size();
            std::vector<int> pool, tids;
            if (mode == M_LOOP_POOL || mode == M_LOOP_SWAP) { pool = ilist(cfg.s("pool")); tids = round_tids(mode, cfg, J, round); }
            bool in_pool = mode == M_LOOP_MASTERWORKS || (mode == M_LOOP_NOMASTER && comm.rank() != root) ||
                           ((mode == M_LOOP_POOL || mode == M_LOOP_SWAP) && std::find(pool.begin(), pool.end(), comm.rank()) != pool.end());
            std::unique_ptr<MPIWorker> worker;
            if (in_pool) worker.reset(new MPIWorker(comm, root));
            std::unique_ptr<MPIMaster> fresh;
            MPIMaster* disp = nullptr;
            if (comm.rank() == root) {
                if (mode == M_LOOP_MASTERWORKS) fresh.reset(new MPIMaster(comm, (size_t)nj, true));
                else if (mode == M_LOOP_NOMASTER) fresh.reset(new MPIMaster(comm, (size_t)nj, false));
                else if (mode == M_LOOP_POOL || !persistent) fresh.reset(new MPIMaster(comm, pool, tids));
                if (mode == M_LOOP_SWAP) {
                    if (!persistent) persistent = std::move(fresh);
                    else { MPIMaster next(comm, pool, tids); persistent->swap(next); }   // re-arm the master that already dispatched a round
                    disp = persistent.get();
                } else disp = fresh.get();
                if (cfg.i("early", 0)) disp->order(); // as test/mpi_dispatcher_test.cpp does before its barrier
            }
            comm.barrier();
            auto one_job = [&]() { job_body(group, round, worker->current_job(), comm); worker->report_job_done(); };
            if (comm.rank() == root && !in_pool) {
                for (; !disp->is_finished();) { disp->order(); master_invariants(*disp, "after order"); disp->check_workers(); master_invariants(*disp, "after check_workers"); }
            } else if (in_pool) {
                for (; !worker->is_finished();) {
                    if (disp) { disp->order(); master_invariants(*disp, "after order"); }
                    worker->receive_order();
                    if (worker->is_working()) one_job();
                    if (disp) { disp->check_workers(); master_invariants(*disp, "after check_workers"); }
                }
            }
            if (disp) {
                if (!disp->is_finished() && g_rec->inv.size() < 10) g_rec->inv.push_back("master left the loop before Finish was sent to every worker");
                g_rec->maps[std::make_tuple(group, round, world_rank)] = disp->DispatchMap;
            }
            comm.barrier();
        }
        g_rec->finished[std::make_tuple(group, round)]++;
    }
}

static hc::Outcome run_one(hc::RunSpec& rs) {
    hc::Cfg& c = rs.cfg;
    hc::Rng r(rs.seed ^ 0xC16C16ULL);
    // ---- workload from the seed (every key can be overridden for replay / shrinking)
    bool small = r.pct(30);
    int P = small ? r.range(1, 3) : (r.pct(50) ? r.range(2, 6) : r.range(1, 16));
    c.def("P", P); P = std::max(1, std::min(16, (int)c.i("P"))); c.set("P", P);
    int mode; { int x = r.below(100); mode = x < 45 ? 0 : x < 60 ? 1 : x < 73 ? 2 : x < 84 ? 3 : x < 93 ? 4 : 5; }
    c.def("mode", mode); mode = (int)c.i("mode");
    if (mode == M_LOOP_NOMASTER && P < 2) mode = M_LOOP_MASTERWORKS;
    if (mode < 0 || mode > 5) mode = 0;
    c.set("mode", mode);
    int G = mode == M_SKEL_SPLIT ? r.range(1, std::min(P, 4)) : 1;
    c.def("G", G); G = std::max(1, std::min(P, (int)c.i("G"))); if (mode != M_SKEL_SPLIT) G = 1; c.set("G", G);
    auto gen_J = [&](int p) { int x = r.below(100); int m = small ? 3 : 40; int j = x < 10 ? 0 : x < 35 ? r.range(0, std::max(0, p - 1)) : x < 75 ? r.range(p, 3 * p) : r.range(0, m); return std::min(j, m); };
    std::string Js;
    for (int g = 0; g < G; g++) {
        int R = small ? r.range(1, 2) : (r.pct(50) ? 1 : r.range(2, 4));
        std::vector<int> J; for (int k = 0; k < R; k++) J.push_back(gen_J(std::max(1, P / G)));
        if (g) Js += ';'; Js += jlist(J);
    }
    c.def("J", Js);
    std::vector<std::vector<int> > J;
    for (auto& gs : hc::split(c.s("J"), ';')) J.push_back(ilist(gs));
    J.resize(G);
    for (auto& v : J) { if (v.empty()) v.push_back(0); if (v.size() > 6) v.resize(6); for (auto& x : v) x = std::max(0, std::min(60, x)); }
    { std::string s; for (int g = 0; g < G; g++) { if (g) s += ';'; s += jlist(J[g]); } c.set("J", s); }
    c.def("root", mode >= 2 ? r.below(P) : 0);
    c.def("early", r.pct(30));
    if (mode == M_LOOP_POOL || mode == M_LOOP_SWAP) {
        std::vector<int> pool; for (int p = 0; p < P; p++) if (r.pct(60)) pool.push_back(p);
        if (pool.empty()) pool.push_back(r.below(P));
        for (int i = (int)pool.size() - 1; i > 0; i--) std::swap(pool[i], pool[r.below(i + 1)]);
        c.def("pool", jlist(pool));
        std::vector<int> pl = ilist(c.s("pool")), pl2; for (int x : pl) if (x >= 0 && x < P && std::find(pl2.begin(), pl2.end(), x) == pl2.end()) pl2.push_back(x);
        if (pl2.empty()) pl2.push_back(0);
        c.set("pool", jlist(pl2));
        std::vector<int> tids; std::set<int> used; for (int j = 0; j < 400; j++) { int t; do t = r.below(900); while (!used.insert(t).second); tids.push_back(t); }
        c.def("tids", jlist(tids));
    }
    c.def("work", r.pick(std::vector<int>{0, 5, 50, 500}));
    c.def("cseed", (long)(r.u64() % 100000));
    hc::sim_defaults_from_seed(c, r, P);
    g_workmean = (int)c.i("work");

    hc::announce(rs);
    sim::Options o = hc::sim_options(c, P, rs.seed);
    o.replay = rs.replay; o.replay_choices = rs.choices; o.keep_choices = rs.want_choices;
    Recorder rec; g_rec = &rec;
    hc::Outcome oc;
    uint64_t cseed = (uint64_t)c.i("cseed");
    sim::Result res;
    {
        sim::World w(o);
        res = w.run([&](int rank) {
            mpi::communicator world;
            if (mode == M_SKEL_SPLIT) {
                int color = rank * G / P;   // contiguous groups, like computeAll_split
                mpi::communicator sub = world.split(color);
                run_rounds(mode, color, sub, J[color], c, cseed, rank);
            } else {
                run_rounds(mode, 0, world, J[0], c, cseed, rank);
            }
        });
        if (rs.want_trace || res.verdict != "ok") oc.trace = w.format_trace(rs.want_trace ? 20000 : 300);
    }
    oc.absorb(res);
    oc.choices = res.choices;
    // ---- history checks
    auto violation = [&](const std::string& v, const std::string& d) { if (oc.verdict == "ok") { oc.verdict = v; oc.detail = d; } };
    if (res.verdict == "ok") {
        if (!rec.inv.empty()) violation("master-invariant", rec.inv[0]);
        std::ostringstream sig;
        for (int g = 0; g < G; g++) {
            std::vector<int> members; for (int p = 0; p < P; p++) if ((mode == M_SKEL_SPLIT ? p * G / P : 0) == g) members.push_back(p);
            for (int round = 0; round < (int)J[g].size(); round++) {
                int nj = J[g][round];
                std::vector<int> ids;
                if (mode == M_LOOP_POOL || mode == M_LOOP_SWAP) ids = round_tids(mode, c, J[g], round);
                else for (int j = 0; j < nj; j++) ids.push_back(j);
                std::map<JobId, WorkerId> truth;
                for (int id : ids) {
                    auto it = rec.runs.find(std::make_tuple(g, round, id));
                    size_t n = it == rec.runs.end() ? 0 : it->second.size();
                    std::ostringstream d; d << "group " << g << " round " << round << " job " << id << " executed " << n << " times";
                    if (n == 0) violation("job-not-run", d.str());
                    else if (n > 1) { d << " (ranks"; for (auto& e : it->second) d << " " << e.comm_rank; d << ")"; violation("job-run-twice", d.str()); }
                    if (n) truth[id] = it->second[0].comm_rank;
                }
                for (auto& kv : rec.runs) if (std::get<0>(kv.first) == g && std::get<1>(kv.first) == round && std::find(ids.begin(), ids.end(), std::get<2>(kv.first)) == ids.end()) {
                    std::ostringstream d; d << "group " << g << " round " << round << ": job id " << std::get<2>(kv.first) << " executed but never submitted"; violation("job-unknown", d.str()); }
                if (rec.finished[std::make_tuple(g, round)] != (int)members.size()) violation("rank-did-not-leave", "group " + std::to_string(g) + " round " + std::to_string(round));
                // returned / observed maps
                const std::map<JobId, WorkerId>* first = 0; int first_rank = -1;
                for (int p : members) {
                    auto it = rec.maps.find(std::make_tuple(g, round, p));
                    if (it == rec.maps.end()) { if (mode <= 1) violation("map-missing", "rank " + std::to_string(p) + " returned no map"); continue; }
                    const std::map<JobId, WorkerId>& m = it->second;
                    std::ostringstream d; d << "group " << g << " round " << round << " world rank " << p << ": ";
                    if (m.size() != ids.size()) { d << "map has " << m.size() << " entries for " << ids.size() << " jobs"; violation("map-keys", d.str()); }
                    for (int id : ids) if (!m.count(id)) { d << "job " << id << " missing from the map"; violation("map-keys", d.str()); break; }
                    for (auto& kv : m) { auto t = truth.find(kv.first); if (t != truth.end() && t->second != kv.second) { d << "map says job " << kv.first << " ran on rank " << kv.second << " but it ran on rank " << t->second; violation("map-wrong-rank", d.str()); break; } }
                    if (!first) { first = &m; first_rank = p; } else if (*first != m) { d << "map differs from the one on world rank " << first_rank; violation("map-disagree", d.str()); }
                }
                if (first) { for (auto& kv : *first) sig << kv.second; sig << "/"; }
                if (nj == 0) oc.probes["round_with_0_jobs"]++;
                if (nj > 0 && nj < (int)members.size()) oc.probes["jobs_fewer_than_workers"]++;
                if (round >= 1) oc.probes["second_or_later_round"]++;
                std::set<int> used; for (auto& kv : truth) used.insert(kv.second);
                if (used.size() > 1) oc.probes["jobs_spread_over_ranks"]++;
            }
        }
        oc.sig = "m" + std::to_string(mode) + "P" + std::to_string(P) + ":" + sig.str();
    }
    if (P == 1) oc.probes["single_rank"]++;
    if (G > 1) oc.probes["split_groups"]++;
    if (res.st.wildcard_competition) oc.probes["selfsend_competes_with_wildcard_recv"]++;
    if (res.st.rdv_blocked) oc.probes["rendezvous_send_blocked"]++;
    if (res.st.cancels_pending) oc.probes["cancel_on_unmatched_recv"]++;
    if (res.st.cancels_matched) oc.probes["cancel_on_matched_recv"]++;
    if (res.st.stalls) oc.probes["stall_injected"]++;
    if (res.st.delivered_out_of_global_order) oc.probes["cross_source_reordering"]++;
    if (res.st.unexpected) oc.probes["unexpected_queue_used"]++;
    g_rec = nullptr;
    return oc;
}

int main(int argc, char** argv) { return hc::harness_main(argc, argv, "c16_dispatch", run_one); }
