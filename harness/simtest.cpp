// Self-test of the simulator: MPI matching/request/collective semantics (each rule measured against
// boost::mpi 1.83 / Open MPI 4.1.4, DESIGN.md §2.3), the detectors, SimGOMP and determinism.
// usage: simtest [nseeds]   -> prints one line per scenario, exit 0 iff all pass.
// With -DREAL_MPI the same scenario bodies are compiled against the REAL boost::mpi / Open MPI (no shadow include path)
// and run one scenario per mpiexec launch: tools/fidelity_realmpi.sh uses that to keep SimMPI's rules honest.
#ifndef REAL_MPI
#define HC_MAIN_TU
#endif
#include <boost/mpi.hpp>
#include <boost/serialization/vector.hpp>
#include <boost/serialization/string.hpp>
#include <boost/serialization/complex.hpp>
#include "common.hpp"
#include <complex>
#include <set>
#include <omp.h>

#ifdef REAL_MPI
namespace shim { inline void work(int) {} inline void note(int) {} inline int omp_team() { return omp_get_max_threads(); } }
#else
namespace shim { inline void work(int us) { sim::cur()->work(us); } inline void note(int v) { sim::cur()->note(v); } inline int omp_team() { return sim::cur()->opt().omp_threads; } }
#endif

namespace mpi = boost::mpi;
typedef std::function<void(int, std::vector<std::string>&)> Body; // rank body; pushes failure messages

struct Scenario {
    std::string name; int P; std::string expect; Body body;
    std::function<void(sim::Options&)> tweak;
};

#ifndef REAL_MPI
static sim::Options random_opts(int P, uint64_t seed) {
    hc::Cfg c; hc::Rng r(seed * 7919 + 13);
    hc::sim_defaults_from_seed(c, r, P);
    c.set("cap", 20000);
    return hc::sim_options(c, P, seed);
}


static int g_fail = 0;

static void run_scenario(const Scenario& s, int nseeds) {
    std::map<std::string, int> verdicts; std::string firstmsg; std::set<uint64_t> hashes; long steps = 0;
    for (int k = 0; k < nseeds; k++) {
        sim::Options o = random_opts(s.P, 1000 + k);
        if (k == 0) { o = sim::Options(); o.nranks = s.P; o.seed = 1; o.step_cap = 20000; } // the all-default schedule
        if (s.tweak) s.tweak(o);
        std::vector<std::string> msgs;
        uint64_t h1;
        {
            sim::World w(o);
            sim::Result r = w.run([&](int rank) { s.body(rank, msgs); });
            h1 = r.hash; steps += r.st.steps;
            std::string v = r.verdict;
            if (v == "ok" && !msgs.empty()) v = "assert";
            verdicts[v]++;
            if (v != s.expect && firstmsg.empty()) firstmsg = "seed " + std::to_string(o.seed) + ": " + v + " " + r.detail + (msgs.empty() ? "" : " | " + msgs[0]);
        }
        { // determinism: same options, same hash
            std::vector<std::string> m2;
            sim::World w(o);
            sim::Result r = w.run([&](int rank) { s.body(rank, m2); });
            if (r.hash != h1) { verdicts["NONDETERMINISTIC"]++; if (firstmsg.empty()) firstmsg = "seed " + std::to_string(o.seed) + " hash differs between two executions"; }
        }
        hashes.insert(h1);
    }
    bool ok = verdicts.size() == 1 && verdicts.count(s.expect);
    printf("%s %-34s P=%d expect=%-20s runs=%d distinct_hashes=%zu steps=%ld %s\n", ok ? "PASS" : "FAIL", s.name.c_str(), s.P, s.expect.c_str(), nseeds, hashes.size(), steps, ok ? "" : firstmsg.c_str());
    if (!ok) g_fail++;
}

#endif // !REAL_MPI

#define CHECK(c) do { if (!(c)) msgs.push_back(std::string("rank ") + std::to_string(rank) + ": " #c " failed (line " + std::to_string(__LINE__) + ")"); } while (0)

int main(int argc, char** argv) {
    int nseeds = argc > 1 ? atoi(argv[1]) : 60; (void)nseeds;
    std::vector<Scenario> S;

    S.push_back({"posting-order wildcard first", 2, "ok", [](int rank, std::vector<std::string>& msgs) {
        mpi::communicator c; int a = -1, b = -1;
        if (rank == 1) { mpi::request ra = c.irecv(0, mpi::any_tag, a); mpi::request rb = c.irecv(0, 5, b); c.barrier(); ra.wait(); rb.wait(); CHECK(a == 100); CHECK(b == 200); }
        else { c.barrier(); c.send(1, 5, 100); c.send(1, 5, 200); }
    }, nullptr});
    S.push_back({"posting-order specific first", 2, "ok", [](int rank, std::vector<std::string>& msgs) {
        mpi::communicator c; int a = -1, b = -1;
        if (rank == 1) { mpi::request rb = c.irecv(0, 5, b); mpi::request ra = c.irecv(0, mpi::any_tag, a); c.barrier(); ra.wait(); rb.wait(); CHECK(b == 100); CHECK(a == 200); }
        else { c.barrier(); c.send(1, 5, 100); c.send(1, 5, 200); }
    }, nullptr});
    S.push_back({"unexpected queue arrival order", 2, "ok", [](int rank, std::vector<std::string>& msgs) {
        mpi::communicator c; int v = 0;
        if (rank == 0) { c.send(1, 1, 11); c.send(1, 2, 22); c.send(1, 3, 33); c.send(1, 9); }
        else { c.recv(0, 9); // all three earlier messages have arrived (non-overtaking)
               c.recv(0, 3, v); CHECK(v == 33); mpi::status s = c.recv(0, mpi::any_tag, v); CHECK(v == 11 && s.tag() == 1); c.recv(0, mpi::any_tag, v); CHECK(v == 22); }
    }, [](sim::Options& o) { o.rdv_pct = 0; }});
    S.push_back({"cancel pending receive", 2, "ok", [](int rank, std::vector<std::string>& msgs) {
        mpi::communicator c; int b1 = 1, b2 = 2;
        if (rank == 1) { mpi::request r1 = c.irecv(0, 0, b1); r1.cancel(); boost::optional<mpi::status> s = r1.test(); CHECK(s && s->cancelled());
                         CHECK(!r1.test()); mpi::request r2 = c.irecv(0, 0, b2); c.barrier(); r2.wait(); CHECK(b1 == 1 && b2 == 77); }
        else { c.barrier(); c.send(1, 0, 77); }
    }, nullptr});
    S.push_back({"cancel after match has no effect", 2, "ok", [](int rank, std::vector<std::string>& msgs) {
        mpi::communicator c; int b = 0;
        if (rank == 1) { mpi::request r = c.irecv(0, 0, b); c.barrier(); c.recv(0, 1); r.cancel(); boost::optional<mpi::status> s = r.test(); CHECK(s && !s->cancelled()); CHECK(b == 5); }
        else { c.barrier(); c.send(1, 0, 5); c.send(1, 1); }
    }, nullptr});
    S.push_back({"cancel on completed throws", 2, "ok", [](int rank, std::vector<std::string>& msgs) {
        mpi::communicator c; int b = 0;
        if (rank == 1) { mpi::request r = c.irecv(0, 0, b); r.wait(); bool thrown = false; try { r.cancel(); } catch (mpi::exception&) { thrown = true; } CHECK(thrown);
                         mpi::request d; d.cancel(); CHECK(!d.test()); }
        else c.send(1, 0, 5);
    }, nullptr});
    S.push_back({"destroyed request stays posted", 2, "ok", [](int rank, std::vector<std::string>& msgs) {
        mpi::communicator c; int b1 = 0, b2 = 0;
        if (rank == 1) { { mpi::request r = c.irecv(0, 0, b1); } mpi::request r2 = c.irecv(0, 0, b2); c.barrier(); r2.wait(); CHECK(b1 == 100 && b2 == 200); }
        else { c.barrier(); c.send(1, 0, 100); c.send(1, 0, 200); }
    }, nullptr});
    S.push_back({"self-send into posted receive", 1, "ok", [](int rank, std::vector<std::string>& msgs) {
        mpi::communicator c; int b = 0; mpi::request r = c.irecv(0, mpi::any_tag, b); c.send(0, 3, 9); mpi::status s = r.wait(); CHECK(b == 9 && s.tag() == 3 && s.source() == 0);
    }, nullptr});
    S.push_back({"rendezvous self-send w/o receive", 1, "deadlock", [](int rank, std::vector<std::string>& msgs) {
        mpi::communicator c; int big[64] = {0}, b[64]; c.send(0, 3, big, 64); c.recv(0, 3, b, 64);   // 256 bytes: above the eager threshold
    }, [](sim::Options& o) { o.rdv_pct = 100; }});
    S.push_back({"tiny self-send w/o receive is eager", 1, "ok", [](int rank, std::vector<std::string>& msgs) {
        mpi::communicator c; int b = 0; c.send(0, 3, 9); c.recv(0, 3, b); CHECK(b == 9);
    }, [](sim::Options& o) { o.rdv_pct = 100; }});
    S.push_back({"recv-recv deadlock", 2, "deadlock", [](int rank, std::vector<std::string>& msgs) {
        mpi::communicator c; int b = 0; c.recv(1 - rank, 0, b); c.send(1 - rank, 0, 1);
    }, nullptr});
    S.push_back({"polling forever is a hang", 2, "hang", [](int rank, std::vector<std::string>& msgs) {
        mpi::communicator c; int b = 0;
        if (rank == 1) { mpi::request r = c.irecv(0, 0, b); while (!r.test()) {} }
    }, nullptr});
    S.push_back({"polling until served terminates", 3, "ok", [](int rank, std::vector<std::string>& msgs) {
        mpi::communicator c; int b = 0;
        if (rank == 1) { mpi::request r = c.irecv(0, 0, b); long n = 0; while (!r.test()) n++; CHECK(b == 4); }
        else if (rank == 0) { for (int i = 0; i < 30; i++) c.send(2, 1, i); c.send(1, 0, 4); }
        else { int x; for (int i = 0; i < 30; i++) { c.recv(0, 1, x); CHECK(x == i); } }
    }, nullptr});
    S.push_back({"collective mismatch", 2, "collective-mismatch", [](int rank, std::vector<std::string>& msgs) {
        mpi::communicator c; int v = 3; if (rank == 0) c.barrier(); else mpi::broadcast(c, v, 0);
    }, nullptr});
    S.push_back({"bcast count mismatch", 2, "collective-count-mismatch", [](int rank, std::vector<std::string>& msgs) {
        mpi::communicator c; double v[4] = {1, 2, 3, 4}; mpi::broadcast(c, v, rank == 0 ? 4 : 3, 0);
    }, nullptr});
    S.push_back({"world barrier vs MPI_Barrier same ctx", 3, "ok", [](int rank, std::vector<std::string>& msgs) {
        mpi::communicator c; if (rank == 1) MPI_Barrier(MPI_COMM_WORLD); else c.barrier();
    }, nullptr});
    S.push_back({"split + sub-collectives", 5, "ok", [](int rank, std::vector<std::string>& msgs) {
        mpi::communicator c; mpi::communicator s = c.split(rank / 2);
        CHECK(s.size() == (rank == 4 ? 1 : 2)); CHECK(s.rank() == rank % 2);
        int v = s.rank() == 0 ? 100 + rank : -1; mpi::broadcast(s, v, 0); CHECK(v == 100 + (rank / 2) * 2);
        s.barrier(); c.barrier();
        int sum = 0; mpi::all_reduce(s, rank, sum, std::plus<int>()); CHECK(sum == (rank == 4 ? 4 : (rank / 2) * 4 + 1));
        if (s.size() == 2) { int x = -1; if (s.rank() == 0) s.send(1, 0, rank); else { s.recv(0, 0, x); CHECK(x == rank - 1); } }
        mpi::communicator k = c.split(0, -rank); CHECK(k.rank() == 4 - rank);
    }, nullptr});
    S.push_back({"reduce complex arrays", 4, "ok", [](int rank, std::vector<std::string>& msgs) {
        mpi::communicator c; typedef std::complex<double> C; std::vector<C> in(3), out(3, C(-1, -1));
        for (int i = 0; i < 3; i++) in[i] = C(rank + i, -rank);
        mpi::reduce(c, &in[0], 3, &out[0], std::plus<C>(), 2);
        if (rank == 2) for (int i = 0; i < 3; i++) CHECK(out[i] == C(6 + 4 * i, -6)); else CHECK(out[0] == C(-1, -1));
        std::vector<C> e; mpi::reduce(c, e.data(), 0, e.data(), std::plus<C>(), 0);
        double mx = mpi::all_reduce(c, (double)rank, mpi::maximum<double>()); CHECK(mx == 3);
    }, nullptr});
    S.push_back({"truncation", 2, "truncation", [](int rank, std::vector<std::string>& msgs) {
        mpi::communicator c; int v[2] = {1, 2}; int b = 0;
        if (rank == 0) c.send(1, 0, v, 2); else c.recv(0, 0, b);
    }, nullptr});
    S.push_back({"exception in a rank", 2, "exception", [](int rank, std::vector<std::string>& msgs) {
        mpi::communicator c; if (rank == 1) throw std::logic_error("boom"); c.barrier();
    }, nullptr});
    S.push_back({"serialized payloads", 3, "ok", [](int rank, std::vector<std::string>& msgs) {
        mpi::communicator c; std::vector<int> v; std::vector<std::complex<double> > z(2, 7.0);
        if (rank == 0) { v = {1, 2, 3}; z.assign(5, std::complex<double>(1, 2)); }
        mpi::broadcast(c, v, 0); mpi::broadcast(c, z, 0); CHECK(v.size() == 3 && v[2] == 3); CHECK(z.size() == 5 && z[4] == std::complex<double>(1, 2));
        std::string s; if (rank == 1) c.send(2, 0, std::string("hello")); if (rank == 2) { c.recv(1, 0, s); CHECK(s == "hello"); }
        std::vector<int> g; mpi::gather(c, rank * 10, g, 1); if (rank == 1) CHECK(g.size() == 3 && g[2] == 20);
        std::vector<int> ag; mpi::all_gather(c, rank, ag); CHECK(ag.size() == 3 && ag[1] == 1);
    }, nullptr});
    S.push_back({"non-overtaking per pair", 3, "ok", [](int rank, std::vector<std::string>& msgs) {
        mpi::communicator c;
        if (rank < 2) for (int i = 0; i < 20; i++) c.send(2, 0, rank * 1000 + i);
        else { int last[2] = {-1, -1}; for (int i = 0; i < 40; i++) { int x; mpi::status s = c.recv(mpi::any_source, 0, x); int src = s.source(); CHECK(x / 1000 == src); CHECK(x % 1000 == last[src] + 1); last[src] = x % 1000; } }
    }, nullptr});
    S.push_back({"isend/irecv/wait_all/iprobe", 2, "ok", [](int rank, std::vector<std::string>& msgs) {
        mpi::communicator c; int a = 0, b = 0;
        int v1 = 10, v2 = 20;   // send buffers must stay alive until the requests complete (a temporary would not)
        if (rank == 0) { mpi::request r[2] = {c.isend(1, 1, v1), c.isend(1, 2, v2)}; mpi::wait_all(r, r + 2); }
        else { while (!c.iprobe(0, 2)) {} mpi::request r[2] = {c.irecv(0, 2, b), c.irecv(0, 1, a)}; mpi::wait_all(r, r + 2); CHECK(a == 10 && b == 20); }
    }, nullptr});
    S.push_back({"isend buffer kept until completion", 2, "ok", [](int rank, std::vector<std::string>& msgs) {
        mpi::communicator c; int v[3] = {7, 8, 9}, b[3] = {0, 0, 0};
        if (rank == 0) { mpi::request r = c.isend(1, 0, v, 3); r.wait(); v[0] = -1; }   // modified only after completion: receiver must see 7
        else { c.recv(0, 0, b, 3); CHECK(b[0] == 7 && b[2] == 9); }
    }, nullptr});
    S.push_back({"C API: Sendrecv ring, Iprobe, Test, Allgather, Comm_split; all_to_all, test_any", 3, "ok", [](int rank, std::vector<std::string>& msgs) {
        mpi::communicator c; int P = c.size(); int out = rank * 7, in = -1; MPI_Status st;
        MPI_Sendrecv(&out, 1, MPI_INT, (rank + 1) % P, 5, &in, 1, MPI_INT, (rank + P - 1) % P, 5, c, &st);
        CHECK(in == ((rank + P - 1) % P) * 7 && st.MPI_SOURCE == (rank + P - 1) % P);
        int all[3] = {-1, -1, -1}; MPI_Allgather(&rank, 1, MPI_INT, all, 1, MPI_INT, c); CHECK(all[0] == 0 && all[2] == 2);
        MPI_Comm sub; MPI_Comm_split(c, rank == 0 ? 0 : 1, rank, &sub); int sr, ss; MPI_Comm_rank(sub, &sr); MPI_Comm_size(sub, &ss); CHECK(ss == (rank == 0 ? 1 : 2)); CHECK(sr == (rank == 2 ? 1 : 0));
        if (rank == 0) { int v = 42; MPI_Send(&v, 1, MPI_INT, 1, 9, c); }
        if (rank == 1) { int flag = 0; while (!flag) MPI_Iprobe(0, 9, c, &flag, &st); int v = 0; MPI_Request r; MPI_Irecv(&v, 1, MPI_INT, 0, 9, c, &r); int done = 0; while (!done) MPI_Test(&r, &done, &st); CHECK(v == 42); }
        std::vector<int> row(P), col; for (int i = 0; i < P; i++) row[i] = rank * 10 + i; mpi::all_to_all(c, row, col); for (int i = 0; i < P; i++) CHECK(col[i] == i * 10 + rank);
        int a = 0; std::vector<mpi::request> rq; if (rank == 2) { rq.push_back(c.irecv(0, 11, a)); } if (rank == 0) c.send(2, 11, 5);
        if (rank == 2) { while (!mpi::test_any(rq.begin(), rq.end())) {} CHECK(a == 5); }
    }, nullptr});
    S.push_back({"ping-pong forever hits step budget", 2, "step-budget", [](int rank, std::vector<std::string>& msgs) {
        mpi::communicator c; int x = 0; for (;;) { if (rank == 0) { c.send(1, 0, x); c.recv(1, 0, x); } else { c.recv(0, 0, x); c.send(0, 0, x); } }
    }, nullptr});
    S.push_back({"omp parallel for covers every index once", 2, "ok", [](int rank, std::vector<std::string>& msgs) {
        mpi::communicator c; std::vector<int> hit(37, 0); int n = 37; int maxt = 0;
        #pragma omp parallel for
        for (int i = 0; i < n; i++) { hit[i]++; if (omp_get_num_threads() > maxt) maxt = omp_get_num_threads(); }
        for (int i = 0; i < n; i++) CHECK(hit[i] == 1);
        CHECK(maxt == shim::omp_team()); CHECK(omp_get_num_threads() == 1);
        c.barrier();
    }, nullptr});
    S.push_back({"omp dynamic/guided schedules cover every index once", 2, "ok", [](int rank, std::vector<std::string>& msgs) {
        mpi::communicator c; int n = 41; std::vector<int> hit(n, 0), hit2(n, 0); std::set<int> tids;
        #pragma omp parallel for schedule(dynamic, 3)
        for (int i = 0; i < n; i++) { hit[i]++; }
        #pragma omp parallel for schedule(guided)
        for (int i = 0; i < n; i++) { hit2[i]++; }
        for (int i = 0; i < n; i++) { CHECK(hit[i] == 1); CHECK(hit2[i] == 1); }
        c.barrier();
    }, nullptr});
    S.push_back({"omp reduction, critical, per-thread buffers", 2, "ok", [](int rank, std::vector<std::string>& msgs) {
        mpi::communicator c; int n = 100; long sum = 0; std::complex<double> z = 0; std::vector<long> per(omp_get_max_threads(), 0); long crit = 0;
        #pragma omp parallel for reduction(+:sum)
        for (int i = 0; i < n; i++) { sum += i; per[omp_get_thread_num()] += i;
            #pragma omp critical
            { crit += 1; z += std::complex<double>(1, i); } }
        long tot = 0; for (long v : per) tot += v;
        CHECK(sum == 4950); CHECK(tot == 4950); CHECK(crit == n); CHECK(z == std::complex<double>(100, 4950));
        CHECK(omp_get_max_threads() >= 1);
        c.barrier();
    }, nullptr});
    S.push_back({"omp region with two loops, implicit and explicit barriers, single", 2, "ok", [](int rank, std::vector<std::string>& msgs) {
        mpi::communicator c; const int n = 53; std::vector<double> scratch(n, -1), out(n, 0); int singles = 0; std::vector<int> phase(64, 0);
        #pragma omp parallel
        {
            #pragma omp for schedule(dynamic, 4)
            for (int i = 0; i < n; i++) scratch[i] = 2.0 * i;
            // implicit barrier: every scratch entry is written before anybody reads it
            #pragma omp for schedule(static)
            for (int i = 0; i < n; i++) out[i] += scratch[(i * 7) % n];
            #pragma omp single
            { singles++; }
            phase[omp_get_thread_num()] = 1;
            #pragma omp barrier
            int seen = 0; for (int t = 0; t < omp_get_num_threads(); t++) seen += phase[t];
            if (seen != omp_get_num_threads()) out[0] = -1e9;   // somebody passed the barrier before everybody arrived
        }
        for (int i = 0; i < n; i++) CHECK(out[i] == 2.0 * ((i * 7) % n));
        CHECK(singles == 1);
        c.barrier();
    }, nullptr});
    S.push_back({"omp sections and tasks", 2, "ok", [](int rank, std::vector<std::string>& msgs) {
        mpi::communicator c; int a = 0, b = 0, d = 0; std::vector<int> t(10, 0);
        #pragma omp parallel sections
        {
            #pragma omp section
            { a = 1; }
            #pragma omp section
            { b = 2; }
            #pragma omp section
            { d = 3; }
        }
        CHECK(a == 1 && b == 2 && d == 3);
        #pragma omp parallel
        {
            #pragma omp single
            { for (int i = 0; i < 10; i++) {
                #pragma omp task firstprivate(i)
                { t[i] = i * i; } }
              #pragma omp taskwait
            }
        }
        for (int i = 0; i < 10; i++) CHECK(t[i] == i * i);
        c.barrier();
    }, nullptr});
    S.push_back({"work() varies completion order", 4, "ok", [](int rank, std::vector<std::string>& msgs) {
        mpi::communicator c; shim::work(10); int v = rank; if (rank) c.send(0, 0, v); else for (int i = 1; i < 4; i++) { c.recv(mpi::any_source, 0, v); shim::note(v); }
    }, nullptr});

#ifdef REAL_MPI
    // usage: simtest_real --list | simtest_real <k>   (launched with mpiexec -np P for scenario k)
    if (argc > 1 && std::string(argv[1]) == "--list") { for (size_t k = 0; k < S.size(); k++) if (S[k].expect == "ok") printf("%zu %d %s\n", k, S[k].P, S[k].name.c_str()); return 0; }
    mpi::environment env(argc, argv);
    mpi::communicator world;
    size_t k = argc > 1 ? (size_t)atoi(argv[1]) : 0;
    if (k >= S.size() || world.size() != S[k].P) { if (!world.rank()) printf("FAIL bad scenario / rank count\n"); return 2; }
    std::vector<std::string> msgs;
    S[k].body(world.rank(), msgs);
    int bad = (int)msgs.size(), total = 0;
    mpi::all_reduce(world, bad, total, std::plus<int>());
    for (auto& m : msgs) fprintf(stderr, "%s\n", m.c_str());
    if (!world.rank()) printf("%s real-MPI %-34s P=%d\n", total ? "FAIL" : "PASS", S[k].name.c_str(), S[k].P);
    return total ? 1 : 0;
#else
    for (auto& s : S) run_scenario(s, nseeds);
    printf("%s: %d scenario(s) failed\n", g_fail ? "SIMTEST FAILED" : "SIMTEST OK", g_fail);
    return g_fail ? 1 : 0;
#endif
}
