// Self-test of SimGOMP's real-thread mode (build variant "tsan", -DSIM_GOMP_THREADS) on a single inline rank: the OpenMP
// constructs a realistic edit of the library may use must run race-free on real threads under ThreadSanitizer and give the
// right answers. Part of tools/setup.py. (The fiber mode is covered by harness/simtest.cpp.)
#include <boost/mpi.hpp>
#include "sim.hpp"
#include <omp.h>
#include <vector>
#include <complex>
#include <cstdio>
#include <string>

extern "C" __attribute__((used, visibility("default"))) const char* __tsan_default_options() { return "halt_on_error=1:exitcode=66:report_signal_unsafe=0"; }

static int g_fail = 0;
#define CHECK(c) do { if (!(c)) { printf("FAIL line %d: %s\n", __LINE__, #c); g_fail++; } } while (0)

static void body() {
    const int n = 101;
    { std::vector<int> hit(n, 0);
      #pragma omp parallel for
      for (int i = 0; i < n; i++) hit[i]++;
      for (int i = 0; i < n; i++) CHECK(hit[i] == 1); }
    { std::vector<int> hit(n, 0), hit2(n, 0);
      #pragma omp parallel for schedule(dynamic, 3)
      for (int i = 0; i < n; i++) hit[i]++;
      #pragma omp parallel for schedule(guided)
      for (int i = 0; i < n; i++) hit2[i]++;
      for (int i = 0; i < n; i++) { CHECK(hit[i] == 1); CHECK(hit2[i] == 1); } }
    { long sum = 0, crit = 0; std::complex<double> z = 0; std::vector<long> per(omp_get_max_threads(), 0);
      #pragma omp parallel for reduction(+:sum)
      for (int i = 0; i < n; i++) { sum += i; per[omp_get_thread_num()] += i;
          #pragma omp critical
          { crit++; z += std::complex<double>(1, i); } }
      long tot = 0; for (long v : per) tot += v;
      CHECK(sum == n * (n - 1) / 2); CHECK(tot == sum); CHECK(crit == n); CHECK(z == std::complex<double>(n, n * (n - 1) / 2)); }
    { std::vector<double> scratch(n, -1), out(n, 0); int singles = 0, singles2 = 0; std::vector<int> phase(64, 0); double Z = 0;
      #pragma omp parallel
      {
          #pragma omp for schedule(dynamic, 4)
          for (int i = 0; i < n; i++) scratch[i] = 2.0 * i;
          #pragma omp for schedule(static)
          for (int i = 0; i < n; i++) out[i] += scratch[(i * 7) % n];
          #pragma omp single
          { singles++; for (int i = 0; i < n; i++) Z += out[i]; }
          #pragma omp for
          for (int i = 0; i < n; i++) out[i] /= Z;
          #pragma omp single
          { singles2++; }
          phase[omp_get_thread_num()] = 1;
          #pragma omp barrier
          int seen = 0; for (int t = 0; t < omp_get_num_threads(); t++) seen += phase[t];
          if (seen != omp_get_num_threads()) {
              #pragma omp critical
              g_fail++; }
      }
      double s = 0; for (int i = 0; i < n; i++) s += out[i];
      CHECK(singles == 1); CHECK(singles2 == 1); CHECK(s > 0.999999 && s < 1.000001); }
    { int a = 0, b = 0, d = 0; std::vector<int> t(10, 0);
      #pragma omp parallel sections
      {
          #pragma omp section
          { a = 1; }
          #pragma omp section
          { b = 2; }
          #pragma omp section
          { d = 3; }
      }
      CHECK(a == 1 && b == 2 && d == 3);
      #pragma omp parallel
      {
          #pragma omp single
          { for (int i = 0; i < 10; i++) {
              #pragma omp task firstprivate(i)
              { t[i] = i * i; } }
            #pragma omp taskwait
          }
      }
      for (int i = 0; i < 10; i++) CHECK(t[i] == i * i); }
}

int main() {
    for (int T = 1; T <= 8; T++) for (int rep = 0; rep < 5; rep++) {
        sim::Options o; o.nranks = 1; o.seed = T * 100 + rep; o.inline_single = true; o.omp_threads = T;
        sim::World w(o);
        sim::Result r = w.run([&](int) { boost::mpi::communicator c; body(); c.barrier(); });
        if (r.verdict != "ok") { printf("FAIL T=%d: %s %s\n", T, r.verdict.c_str(), r.detail.c_str()); g_fail++; }
    }
    printf("%s: SimGOMP thread mode, teams of 1..8 real threads\n", g_fail ? "OMP-THREADS-SELFTEST FAILED" : "OMP-THREADS-SELFTEST OK");
    return g_fail ? 1 : 0;
}
