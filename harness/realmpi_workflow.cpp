// Real-MPI end-to-end cross-check (tools/fidelity_realmpi.sh): the documented workflow on the REAL boost::mpi / Open MPI
// with the library built in /repo/_build. Every rank computes the reference on MPI_COMM_SELF in the same process and
// compares the distributed results with it, for K components, split and unsplit. Mirrors what the C06 harness decides
// in simulation; it is a fidelity aid, not a deciding check.
// usage: mpiexec -np P realmpi_workflow <K components> <split 0|1> <model 0 atom | 1 dimer>
#include <pomerol.h>
#include <boost/mpi.hpp>
#include <cstdio>
#include <cmath>
using namespace Pomerol;
typedef boost::tuple<ComplexType, ComplexType, ComplexType> FT;

struct Run {
    Lattice L; IndexClassification* II; IndexHamiltonian* St; Symmetrizer* Sy; StatesClassification* S; Hamiltonian* H;
    DensityMatrix* rho; FieldOperatorContainer* Ops; TwoParticleGFContainer* Chi;
    std::map<IndexCombination4, std::vector<ComplexType> > tables;
    Run(int model, int K, bool split, const boost::mpi::communicator& comm) {
        L.addSite(new Lattice::Site("A", 1, 2)); LatticePresets::addCoulombS(&L, "A", 1.25, -0.375);
        if (model == 1) { L.addSite(new Lattice::Site("B", 1, 2)); LatticePresets::addCoulombS(&L, "B", 0.75, -0.5); LatticePresets::addHopping(&L, "A", "B", -0.625); }
        II = new IndexClassification(L.getSiteMap()); II->prepare();
        St = new IndexHamiltonian(&L, *II); St->prepare();
        Sy = new Symmetrizer(*II, *St); Sy->compute();
        S = new StatesClassification(*II, *Sy); S->compute();
        H = new Hamiltonian(*II, *St, *S); H->prepare(comm); H->compute(comm);
        rho = new DensityMatrix(*S, *H, 5.0); rho->prepare(); rho->compute();
        Ops = new FieldOperatorContainer(*II, *S, *H); Ops->prepareAll(); Ops->computeAll();
        Chi = new TwoParticleGFContainer(*II, *S, *H, *rho, *Ops);
        std::set<IndexCombination4> idx;
        const int q[5][4] = {{0, 1, 0, 1}, {0, 0, 0, 0}, {1, 1, 1, 1}, {0, 1, 1, 0}, {1, 0, 1, 0}};
        int nm = II->getIndexSize();
        for (int k = 0; k < K && k < 5; k++) idx.insert(IndexCombination4(q[k][0] % nm, q[k][1] % nm, q[k][2] % nm, q[k][3] % nm));
        if (model == 1 && K > 2) idx.insert(IndexCombination4(2, 3, 2, 3));
        Chi->prepareAll(idx);
        std::vector<FT> freqs; double w = M_PI / 5.0;
        for (int n = -2; n <= 2; n++) freqs.push_back(boost::make_tuple(ComplexType(0, w * (2 * n + 1)), ComplexType(0, w * (1 - 2 * n)), ComplexType(0, w)));
        tables = Chi->computeAll(false, freqs, comm, split);
    }
};

int main(int argc, char** argv) {
    boost::mpi::environment env(argc, argv);
    boost::mpi::communicator world;
    int K = argc > 1 ? atoi(argv[1]) : 2; bool split = argc > 2 ? atoi(argv[2]) != 0 : true; int model = argc > 3 ? atoi(argv[3]) : 0;
    std::streambuf* old = std::cout.rdbuf(); std::cout.rdbuf(0);
    int bad = 0; std::string why;
    try {
        Run ref(model, K, split, boost::mpi::communicator(MPI_COMM_SELF, boost::mpi::comm_attach));
        Run par(model, K, split, world);
        for (BlockNumber b = 0; b < ref.S->NumberOfBlocks(); b++) {
            if ((ref.H->getPart(b).getEigenValues() - par.H->getPart(b).getEigenValues()).norm() > 1e-12) { bad++; why = "eigenvalues"; }
            if ((ref.H->getPart(b).getMatrix() - par.H->getPart(b).getMatrix()).norm() > 1e-12) { bad++; why = "eigenvectors"; }
        }
        if (split || world.rank() == 0) {
            if (ref.tables.size() != par.tables.size()) { bad++; why = "table key set"; }
            for (auto& kv : ref.tables) { auto it = par.tables.find(kv.first); if (it == par.tables.end() || it->second.size() != kv.second.size()) { bad++; why = "table shape"; continue; }
                for (size_t i = 0; i < kv.second.size(); i++) if (std::abs(kv.second[i] - it->second[i]) > 1e-9 * (1 + std::abs(kv.second[i]))) { bad++; why = "table value"; } }
        }
        for (auto& kv : ref.Chi->ElementsMap) {
            ComplexType a = kv.second(1, -2, 0), b = par.Chi->ElementsMap.at(kv.first)(1, -2, 0);   // throws if unevaluable
            if (std::abs(a - b) > 1e-9 * (1 + std::abs(a))) { bad++; why = "chi from terms"; }
        }
    } catch (std::exception& e) { bad++; why = std::string("exception: ") + e.what(); }
    std::cout.rdbuf(old);
    int total = 0; boost::mpi::all_reduce(world, bad, total, std::plus<int>());
    if (bad) fprintf(stderr, "rank %d: %s\n", world.rank(), why.c_str());
    if (!world.rank()) printf("%s real-MPI workflow np=%d K=%d split=%d model=%d\n", total ? "FAIL" : "PASS", world.size(), K, (int)split, model);
    return total ? 1 : 0;
}
