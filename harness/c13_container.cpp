// C13: request histories against TwoParticleGFContainer / IndexContainer4, executed SPMD on P simulated
// ranks; oracle = directly constructed TwoParticleGF per quadruple + orbit-level status model. DESIGN.md §3.3.
#define HC_MAIN_TU
#include <boost/mpi.hpp>
#include "common.hpp"
#include "models.hpp"
#include <set>
#include <cmath>

namespace mpi = boost::mpi;
using namespace Pomerol;
using models::quad; using models::quad_str;

static const long TRIPLES[8][3] = {{0, 0, 0}, {1, -2, 0}, {-1, 0, -1}, {2, 1, 2}, {0, -1, 3}, {-3, 2, 1}, {1, 1, -2}, {0, 2, 2}};
static const int NTRIPLES = 8;

struct Op { char kind; std::vector<std::string> quads; bool all = false; bool split = true; std::string freqs; int triple = 0; };

static std::vector<Op> parse_ops(const std::string& s, int nm) {
    std::vector<Op> ops;
    for (auto& tok : hc::split(s, '|')) {
        if (tok.empty()) continue;
        std::vector<std::string> f = hc::split(tok, ':');
        Op op; op.kind = f[0].empty() ? '?' : f[0][0];
        auto valid = [&](const std::string& q) { if (q.size() != 4) return false; for (char c : q) if (c < '0' || c >= '0' + nm) return false; return true; };
        switch (op.kind) {
            case 'F': case 'P':
                if (f.size() > 1 && f[1] == "*") op.all = true;
                else if (f.size() > 1) for (auto& q : hc::split(f[1], ',')) if (valid(q)) op.quads.push_back(q);
                if (!op.all && op.quads.empty()) continue;
                break;
            case 'C': case 'X':
                op.split = !(f.size() > 1 && f[1] == "n");
                if (f.size() > 2) { op.freqs = f[2]; for (size_t i = 3; i < f.size(); i++) op.freqs += ":" + f[i]; }
                break;
            case 'L': case 'p': case 'c': case 'I':
                if (f.size() < 2 || !valid(f[1])) continue;
                op.quads.push_back(f[1]);
                break;
            case 'E': case 'R':
                if (f.size() < 2 || !valid(f[1])) continue;
                op.quads.push_back(f[1]);
                op.triple = f.size() > 2 ? std::abs(atoi(f[2].c_str())) % NTRIPLES : 0;
                break;
            default: continue;
        }
        ops.push_back(op);
    }
    return ops;
}
static std::string ops_str(const std::vector<Op>& ops) {
    std::string s;
    for (auto& op : ops) {
        if (!s.empty()) s += '|';
        s += op.kind;
        if (op.kind == 'F' || op.kind == 'P') { s += ':'; if (op.all) s += '*'; else for (size_t i = 0; i < op.quads.size(); i++) { if (i) s += ','; s += op.quads[i]; } }
        else if (op.kind == 'C' || op.kind == 'X') { s += op.split ? ":s" : ":n"; if (!op.freqs.empty()) s += ":" + op.freqs; }
        else { s += ':' + op.quads[0]; if (op.kind == 'E' || op.kind == 'R') s += ':' + std::to_string(op.triple); }
    }
    return s;
}

// orbit of a quadruple under the two exchanges; canonical representative = smallest member
static std::vector<std::string> orbit(const std::string& q) {
    std::set<std::string> o;
    o.insert(q);
    o.insert(std::string() + q[1] + q[0] + q[2] + q[3]);
    o.insert(std::string() + q[0] + q[1] + q[3] + q[2]);
    o.insert(std::string() + q[1] + q[0] + q[3] + q[2]);
    return std::vector<std::string>(o.begin(), o.end());
}
static std::string canon(const std::string& q) { return orbit(q)[0]; }

enum St { ABSENT = 0, LISTED = 1, PREPARED = 2, COMPUTED = 3, CLEARED = 4 };  // CLEARED: computed with clearTerms=true - marked computed, unevaluable by design until refilled
struct StatusModel {
    std::map<std::string, int> orb; // canonical quadruple -> state
    int nm;
    int get(const std::string& q) const { auto it = orb.find(canon(q)); return it == orb.end() ? ABSENT : it->second; }
    void lift(const std::string& q, int st) { int& s = orb[canon(q)]; if (s < st) s = st; }   // CLEARED is maximal: later prepare/compute calls return early and change nothing
    void fill(const Op& op, int st) {
        orb.clear();
        if (op.all) { for (int a = 0; a < nm; a++) for (int b = 0; b < nm; b++) for (int c = 0; c < nm; c++) for (int d = 0; d < nm; d++) { std::string q; q += '0' + a; q += '0' + b; q += '0' + c; q += '0' + d; lift(q, st); } }
        else for (auto& q : op.quads) lift(q, st);
    }
    bool all_prepared() const { for (auto& kv : orb) if (kv.second == LISTED) return false; return true; }
};

// reference values: directly constructed TwoParticleGF per quadruple, evaluated at TRIPLES, computed on 1 rank
struct RefKey { int model; long mp; bool nosym; int beta; bool operator<(const RefKey& o) const { return std::tie(model, mp, nosym, beta) < std::tie(o.model, o.mp, o.nosym, o.beta); }
    bool operator==(const RefKey& o) const { return std::tie(model, mp, nosym, beta) == std::tie(o.model, o.mp, o.nosym, o.beta); } };
struct RefCtx { std::map<std::string, std::vector<ComplexType> > vals; };
static std::map<RefKey, RefCtx> g_ref;
static std::vector<RefKey> g_reforder;

static std::string ensure_reference(const RefKey& k, const std::set<std::string>& need) {
    RefCtx& rc = g_ref[k];
    std::vector<std::string> missing;
    for (auto& q : need) if (!rc.vals.count(q)) missing.push_back(q);
    if (missing.empty()) return "";
    if (std::find(g_reforder.begin(), g_reforder.end(), k) == g_reforder.end()) {
        g_reforder.push_back(k);
        if (g_reforder.size() > 6) { g_ref.erase(g_reforder.front()); g_reforder.erase(g_reforder.begin()); }
    }
    sim::Options ro; ro.nranks = 1; ro.seed = 0;
    sim::World w(ro);
    RefCtx* prc = &g_ref[k];
    sim::Result r = w.run([&](int) {
        mpi::communicator comm;
        models::Stage0 s0(k.model, k.mp, k.nosym, /*near_degenerate_ok=*/false);
        s0.H->prepare(comm); s0.H->compute(comm);
        models::Stage1 s1(s0, k.beta);
        for (auto& qs : missing) {
            IndexCombination4 q = quad(qs);
            TwoParticleGF chi(*s0.S, *s0.H, s1.Ops->getAnnihilationOperator(q.Index1), s1.Ops->getAnnihilationOperator(q.Index2),
                              s1.Ops->getCreationOperator(q.Index3), s1.Ops->getCreationOperator(q.Index4), *s1.rho);
            chi.prepare();
            chi.compute(false, std::vector<models::FreqTuple>(), comm);
            std::vector<ComplexType> v;
            for (int t = 0; t < NTRIPLES; t++) v.push_back(chi(TRIPLES[t][0], TRIPLES[t][1], TRIPLES[t][2]));
            prc->vals[qs] = v;
        }
    });
    return r.verdict == "ok" ? "" : ("reference-" + r.verdict + ": " + r.detail);
}

struct RankReport { std::string verdict = "ok", detail; long checks = 0, evals = 0, skipped = 0, created_on_demand = 0; bool nontrivial = false; bool alias_checked = false, stale_refill = false; };

static bool close_enough(ComplexType a, ComplexType b) { return std::abs(a - b) <= 1e-7 * (1 + std::abs(b)); }

static void run_history(const RefKey& k, const std::vector<Op>& ops, RankReport& rep) {
    mpi::communicator comm;
    int rank = comm.rank();
    models::Stage0 s0(k.model, k.mp, k.nosym, /*near_degenerate_ok=*/false);
    s0.H->prepare(comm); s0.H->compute(comm);
    models::Stage1 s1(s0, k.beta);
    TwoParticleGFContainer Chi(*s0.IndexInfo, *s0.S, *s0.H, *s1.rho, *s1.Ops);
    StatusModel model; model.nm = s0.IndexInfo->getIndexSize();
    const RefCtx& ref = g_ref[k];
    auto fail = [&](const std::string& v, const std::string& d) { if (rep.verdict == "ok") { rep.verdict = v; rep.detail = "rank " + std::to_string(rank) + ": " + d; } };
    int nbulk = 0;
    for (size_t oi = 0; oi < ops.size() && rep.verdict == "ok"; oi++) {
        const Op& op = ops[oi];
        std::string where = "after op " + std::to_string(oi) + " (" + ops_str(std::vector<Op>(1, op)) + ")";
        try {
            switch (op.kind) {
                case 'F': case 'P': {
                    std::set<IndexCombination4> idx; for (auto& q : op.quads) idx.insert(quad(q));
                    if (nbulk) rep.stale_refill = true;
                    if (op.kind == 'F') { Chi.fill(idx); model.fill(op, LISTED); } else { Chi.prepareAll(idx); model.fill(op, PREPARED); }
                    break; }
                case 'C': {
                    if (!model.all_prepared()) { rep.skipped++; break; } // documented order: compute needs prepared elements
                    Chi.computeAll(false, models::freqs_from(op.freqs, k.beta), comm, op.split);
                    for (auto& kv : model.orb) if (kv.second == PREPARED) kv.second = COMPUTED;
                    nbulk++; rep.nontrivial = true;
                    break; }
                case 'X': {
                    // bulk computation that clears the terms: the elements end up marked computed but are unevaluable by design
                    if (!model.all_prepared()) { rep.skipped++; break; }
                    Chi.computeAll(true, models::freqs_from(op.freqs, k.beta), comm, op.split);
                    for (auto& kv : model.orb) if (kv.second == PREPARED) kv.second = CLEARED;
                    nbulk++;
                    break; }
                case 'L': { if (!Chi.isInContainer(quad(op.quads[0]))) rep.created_on_demand++; Chi(quad(op.quads[0])); model.lift(op.quads[0], LISTED); break; }
                case 'p': { if (!Chi.isInContainer(quad(op.quads[0]))) rep.created_on_demand++; static_cast<TwoParticleGF&>(Chi(quad(op.quads[0]))).prepare(); model.lift(op.quads[0], PREPARED); break; }
                case 'c': {
                    if (model.get(op.quads[0]) < PREPARED) { rep.skipped++; break; } // compute() on an unprepared element throws by contract
                    static_cast<TwoParticleGF&>(Chi(quad(op.quads[0]))).compute(false, std::vector<models::FreqTuple>(), comm);
                    model.lift(op.quads[0], COMPUTED); rep.nontrivial = true;
                    break; }
                case 'R': {
                    // "the element obtained on demand": keep the reference returned by the lookup and do everything through it
                    if (model.get(op.quads[0]) == CLEARED) { rep.skipped++; break; } // purged on request: unevaluable by design
                    if (!Chi.isInContainer(quad(op.quads[0]))) rep.created_on_demand++;
                    ElementWithPermFreq<TwoParticleGF>& e = Chi(quad(op.quads[0]));
                    static_cast<TwoParticleGF&>(e).prepare();
                    static_cast<TwoParticleGF&>(e).compute(false, std::vector<models::FreqTuple>(), comm);
                    model.lift(op.quads[0], COMPUTED); rep.nontrivial = true;
                    const long* t = TRIPLES[op.triple];
                    ComplexType v = e(t[0], t[1], t[2]);
                    rep.evals++;
                    ComplexType r = ref.vals.at(op.quads[0])[op.triple];
                    if (!close_enough(v, r)) { std::ostringstream d; d << where << ": the element handle returned by the on-demand lookup of " << op.quads[0] << " evaluates (" << t[0] << "," << t[1] << "," << t[2] << ") to " << v << ", directly constructed 2PGF gives " << r; fail("value-mismatch", d.str()); }
                    break; }
                case 'I': {
                    bool in = Chi.isInContainer(quad(op.quads[0]));
                    if (in != (model.get(op.quads[0]) != ABSENT)) fail("listing-mismatch", where + ": isInContainer(" + op.quads[0] + ") = " + std::to_string(in) + " but the history " + (in ? "never listed it" : "listed it"));
                    break; }
                case 'E': {
                    if (model.get(op.quads[0]) != COMPUTED) { rep.skipped++; break; } // value unspecified unless prepared and computed
                    const long* t = TRIPLES[op.triple];
                    ComplexType v = Chi(quad(op.quads[0]))(t[0], t[1], t[2]);
                    rep.evals++;
                    ComplexType r = ref.vals.at(op.quads[0])[op.triple];
                    if (!close_enough(v, r)) { std::ostringstream d; d << where << ": container(" << op.quads[0] << ")(" << t[0] << "," << t[1] << "," << t[2] << ") = " << v << ", directly constructed 2PGF gives " << r; fail("value-mismatch", d.str()); }
                    break; }
            }
        } catch (sim::Abort&) { throw; }
        catch (std::exception& e) { fail("operation-throws", where + ": " + e.what()); }
        if (rep.verdict != "ok") break;
        // ---- oracle after every operation
        // (ii) status model: every quadruple of a COMPUTED orbit is listed and evaluable with the direct value
        for (auto& kv : model.orb) {
            if (kv.second != COMPUTED) continue;
            for (auto& qs : orbit(kv.first)) {
                auto it = Chi.ElementsMap.find(quad(qs));
                if (it == Chi.ElementsMap.end()) { fail("not-listed", where + ": " + qs + " was prepared and computed but is not in the container"); break; }
                // "evaluable" is decided by evaluating, not by the internal status flag (a vanishing component that was
                // computed by another colour keeps Status==Prepared on this rank and still evaluates to 0, which is correct)
                try {
                    for (int t = 0; t < 3; t++) {
                        int ti = (t * 3 + (int)oi) % NTRIPLES;
                        ComplexType v = it->second(TRIPLES[ti][0], TRIPLES[ti][1], TRIPLES[ti][2]);
                        ComplexType r = ref.vals.at(qs)[ti];
                        rep.checks++;
                        if (&*it->second.pElement != &*Chi.ElementsMap.find(quad(kv.first))->second.pElement || qs != kv.first) rep.alias_checked = true;
                        if (!close_enough(v, r)) { std::ostringstream d; d << where << ": container(" << qs << ")(" << TRIPLES[ti][0] << "," << TRIPLES[ti][1] << "," << TRIPLES[ti][2] << ") = " << v << ", directly constructed 2PGF gives " << r; fail("value-mismatch", d.str()); break; }
                    }
                } catch (sim::Abort&) { throw; }
                catch (std::exception& e) { fail("not-evaluable", where + ": evaluating " + qs + " throws: " + e.what()); }
                if (rep.verdict != "ok") break;
            }
            if (rep.verdict != "ok") break;
        }
        if (rep.verdict != "ok") break;
        // (iv) an element whose terms were purged on request is unevaluable by design - evaluation throws. If the container
        // nevertheless RETURNS a value for it, that value must still be the right one: silently returning something else
        // (e.g. 0 from empty term lists) is a wrong answer, not a refusal.
        for (auto& kv : model.orb) {
            if (kv.second != CLEARED) continue;
            for (auto& qs : orbit(kv.first)) {
                auto it = Chi.ElementsMap.find(quad(qs));
                if (it == Chi.ElementsMap.end()) continue;
                try {
                    int ti = (int)(oi + 2) % NTRIPLES;
                    ComplexType v = it->second(TRIPLES[ti][0], TRIPLES[ti][1], TRIPLES[ti][2]);
                    ComplexType r = ref.vals.at(qs)[ti];
                    rep.checks++;
                    if (!close_enough(v, r)) { std::ostringstream d; d << where << ": the terms of " << qs << " were cleared, yet container(" << qs << ")(" << TRIPLES[ti][0] << "," << TRIPLES[ti][1] << "," << TRIPLES[ti][2] << ") returns " << v << " instead of throwing; the directly constructed 2PGF gives " << r; fail("value-mismatch", d.str()); break; }
                } catch (sim::Abort&) { throw; }
                catch (std::exception&) { /* refusing to evaluate purged terms is the documented behaviour */ }
            }
            if (rep.verdict != "ok") break;
        }
        if (rep.verdict != "ok") break;
        // (i) the property's own antecedent: whatever reports Computed must agree with the direct value;
        // (iii) exchange identities between container entries
        for (auto& kv : Chi.ElementsMap) {
            TwoParticleGF& g = *kv.second.pElement;
            if (g.getStatus() != TwoParticleGF::Computed) continue;
            std::string qs = quad_str(kv.first);
            if (model.get(qs) == CLEARED) continue;   // terms purged on request: "computed" but unevaluable by design
            auto rv = ref.vals.find(qs);
            try {
                int ti = (int)(oi * 5 + 1) % NTRIPLES;
                long n1 = TRIPLES[ti][0], n2 = TRIPLES[ti][1], n3 = TRIPLES[ti][2];
                ComplexType v = kv.second(n1, n2, n3);
                rep.checks++;
                if (rv != ref.vals.end() && !close_enough(v, rv->second[ti])) { std::ostringstream d; d << where << ": container(" << qs << ")(" << n1 << "," << n2 << "," << n3 << ") = " << v << " reports Computed but the directly constructed 2PGF gives " << rv->second[ti]; fail("value-mismatch", d.str()); break; }
                auto sw1 = Chi.ElementsMap.find(IndexCombination4(kv.first.Index2, kv.first.Index1, kv.first.Index3, kv.first.Index4));
                if (sw1 != Chi.ElementsMap.end() && sw1->second.pElement->getStatus() == TwoParticleGF::Computed) {
                    ComplexType u = sw1->second(n2, n1, n3);
                    if (!close_enough(u, -v)) { std::ostringstream d; d << where << ": chi_jikl(w2,w1;w3) = " << u << " != -chi_ijkl(w1,w2;w3) = " << -v << " for ijkl=" << qs; fail("exchange-identity", d.str()); break; }
                }
                auto sw2 = Chi.ElementsMap.find(IndexCombination4(kv.first.Index1, kv.first.Index2, kv.first.Index4, kv.first.Index3));
                if (sw2 != Chi.ElementsMap.end() && sw2->second.pElement->getStatus() == TwoParticleGF::Computed) {
                    ComplexType u = sw2->second(n1, n2, n1 + n2 - n3);
                    if (!close_enough(u, -v)) { std::ostringstream d; d << where << ": chi_ijlk(w1,w2;w1+w2-w3) = " << u << " != -chi_ijkl(w1,w2;w3) = " << -v << " for ijkl=" << qs; fail("exchange-identity", d.str()); break; }
                }
            } catch (sim::Abort&) { throw; }
            catch (std::exception& e) { fail("not-evaluable", where + ": element for " + qs + " reports Computed but evaluation throws: " + e.what()); break; }
        }
    }
}

static std::string gen_ops(hc::Rng& r, int nm) {
    // a small pool of quadruples biased towards a few orbits, so that stored-vs-alias roles vary with insertion order
    std::vector<std::string> pool;
    int nbase = r.range(1, 3);
    for (int b = 0; b < nbase; b++) {
        std::string q = models::rand_quad(r, nm);
        std::vector<std::string> o = orbit(q);
        for (auto& m : o) if (r.pct(70)) pool.push_back(m);
        pool.push_back(q);
    }
    auto pickset = [&]() { std::set<std::string> s; int n = r.range(1, std::min(4, (int)pool.size())); for (int i = 0; i < n; i++) s.insert(r.pick(pool)); std::string o; for (auto& q : s) { if (!o.empty()) o += ','; o += q; } return o; };
    int n = r.range(2, 8);
    std::string s;
    bool have = false;
    for (int i = 0; i < n; i++) {
        int x = r.below(100);
        std::string op;
        if (!have && x < 60) x = r.below(33);
        if (x < 25) { op = "P:" + ((nm == 2 && r.pct(10)) ? std::string("*") : pickset()); have = true; }
        else if (x < 33) { op = "F:" + pickset(); have = true; }
        else if (x < 58) { op = std::string(r.pct(12) ? "X:" : "C:") + (r.pct(65) ? "s" : "n"); if (r.pct(50)) op += ":" + models::rand_freqs(r, r.range(1, 3));
                           if (r.pct(35)) op += std::string("|C:") + (r.pct(65) ? "s" : "n"); }   // a bulk computation repeated with nothing new in between
        else if (x < 66) op = "L:" + r.pick(pool);
        else if (x < 76) op = "p:" + r.pick(pool);
        else if (x < 86) op = "c:" + r.pick(pool);
        else if (x < 93) op = "E:" + r.pick(pool) + ":" + std::to_string(r.below(NTRIPLES));
        else if (x < 98) op = "R:" + r.pick(pool) + ":" + std::to_string(r.below(NTRIPLES));
        else op = "I:" + r.pick(pool);
        if (!s.empty()) s += '|';
        s += op;
    }
    return s;
}

static hc::Outcome run_one(hc::RunSpec& rs) {
    hc::Cfg& c = rs.cfg;
    hc::Rng r(rs.seed ^ 0xC13C13ULL);
    int P; { int x = r.below(100); P = x < 35 ? 1 : x < 65 ? 2 : x < 85 ? 3 : 4; }
    c.def("P", P); P = std::max(1, std::min(8, (int)c.i("P"))); c.set("P", P);
    int model; { int x = r.below(100); model = x < 40 ? models::ATOM : x < 80 ? models::DIMER : x < 86 ? models::ATOM_FIELD : x < 90 ? models::DIMER_FIELD : x < 93 ? models::ATOMS2 : x < 96 ? models::EXCH2 : models::KANAMORI; }
    c.def("model", model); model = (int)c.i("model") % models::N_MODELS; if (model < 0 || models::is_big(model) || model == models::ATOMS3 || model == models::TINYDIMER) model = 0;   // TINYDIMER: see models::params c.set("model", model);
    c.def("mp", r.pct(15) ? 0 : r.range(1, 100000));
    c.def("nosym", r.pct(10));
    c.def("beta", r.pick(std::vector<int>{1, 2, 5, 10, 20}));
    int nm = models::nmodes(model);
    c.def("ops", gen_ops(r, nm));
    hc::sim_defaults_from_seed(c, r, P);
    std::vector<Op> ops = parse_ops(c.s("ops"), nm);
    if (ops.size() > 12) ops.resize(12);
    c.set("ops", ops_str(ops).empty() ? "I:0000" : ops_str(ops));
    RefKey k{model, c.i("mp"), c.i("nosym") != 0, (int)std::max(1L, c.i("beta"))};
    c.set("beta", k.beta); c.set("nosym", k.nosym);

    hc::announce(rs);
    hc::Outcome oc;
    // reference values for every quadruple in every orbit the history touches
    std::set<std::string> need;
    for (auto& op : ops) {
        if (op.all) { for (int a = 0; a < nm; a++) for (int b = 0; b < nm; b++) for (int cc = 0; cc < nm; cc++) for (int d = 0; d < nm; d++) { std::string q; q += '0' + a; q += '0' + b; q += '0' + cc; q += '0' + d; need.insert(q); } }
        for (auto& q : op.quads) for (auto& m : orbit(q)) need.insert(m);
    }
    std::string rerr = ensure_reference(k, need);
    if (!rerr.empty()) { oc.verdict = rerr.substr(0, rerr.find(':')); oc.detail = rerr; oc.nworlds = 1; return oc; }

    sim::Options o = hc::sim_options(c, P, rs.seed);
    o.replay = rs.replay; o.replay_choices = rs.choices; o.keep_choices = rs.want_choices;
    std::vector<RankReport> reps(P);
    sim::Result res;
    {
        sim::World wd(o);
        res = wd.run([&](int rank) { run_history(k, ops, reps[rank]); });
        if (rs.want_trace || res.verdict != "ok") oc.trace = wd.format_trace(rs.want_trace ? 20000 : 300);
    }
    oc.absorb(res);
    oc.choices = res.choices;
    if (res.verdict == "ok") for (int p = 0; p < P; p++) if (reps[p].verdict != "ok") { oc.verdict = reps[p].verdict; oc.detail = reps[p].detail; break; }
    const RankReport& r0 = reps[0];
    if (r0.nontrivial) oc.probes["nontrivial_history"]++;
    if (r0.alias_checked) oc.probes["alias_compared_with_direct"]++;
    if (r0.stale_refill) oc.probes["refill_after_bulk_computation"]++;
    if (r0.created_on_demand) oc.probes["element_created_on_demand"]++;
    if (r0.skipped) oc.probes["op_skipped_by_precondition"]++;
    if (r0.evals) oc.probes["explicit_evaluation"]++;
    oc.probes["oracle_value_checks"] += r0.checks;
    if (res.st.splits) oc.probes["split_computation"]++;
    if (P > 1) oc.probes["multi_rank"]++;
    oc.sig = std::to_string(std::hash<std::string>()(c.s("ops")) % 1000000007) + ":" + std::to_string(P);
    return oc;
}

int main(int argc, char** argv) { return hc::harness_main(argc, argv, "c13_container", run_one); }
