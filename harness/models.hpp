// Seeded model family shared by the C06 / C13 / C17 harnesses. Parameters live on a 1/8 grid
// (avoids accidental near-degeneracies at pomerol's 1e-8 term-merging tolerance).
#pragma once
#include <pomerol/Misc.h>
#include <pomerol/Lattice.h>
#include <pomerol/LatticePresets.h>
#include <pomerol/Index.h>
#include <pomerol/IndexClassification.h>
#include <pomerol/Operator.h>
#include <pomerol/OperatorPresets.h>
#include <pomerol/IndexHamiltonian.h>
#include <pomerol/Symmetrizer.h>
#include <pomerol/StatesClassification.h>
#include <pomerol/HamiltonianPart.h>
#include <pomerol/Hamiltonian.h>
#include <pomerol/DensityMatrix.h>
#include <pomerol/FieldOperatorContainer.h>
#include <pomerol/GFContainer.h>
#include <pomerol/TwoParticleGF.h>
#include <pomerol/TwoParticleGFContainer.h>
#include <memory>
#include "common.hpp"

namespace models {
using namespace Pomerol;

enum { ATOM = 0, DIMER = 1, KANAMORI = 2, CHAIN3 = 3, ATOM_FIELD = 4, DIMER_FIELD = 5, ATOMS2 = 6, EXCH2 = 7, T2G = 8, TINYDIMER = 9, ATOMS3 = 10, N_MODELS = 11 };
// TINYDIMER: dimer whose only S_z-breaking term is a spin-flip hopping of amplitude 1e-6 .. 1e-13; ATOMS3: three isolated atoms (6 modes, every n_i conserved)  // ATOMS2: two sites NOT connected by hopping

inline int nmodes(int model) { return model == ATOM || model == ATOM_FIELD ? 2 : (model == CHAIN3 || model == T2G || model == ATOMS3) ? 6 : 4; }
inline bool is_big(int model) { return model == CHAIN3 || model == T2G; }   // 64-dimensional Fock space: thorough tier only
inline const char* model_name(int m) { static const char* n[] = {"atom", "dimer", "kanamori", "chain3", "atom+field", "dimer+field", "two isolated atoms", "two sites with spin exchange", "t2g site (3 orbitals, Kanamori)", "dimer with a tiny spin-flip term", "three isolated atoms"}; return n[m % N_MODELS]; }

struct Params { double U[3], eps[3], t[2], J, h; };

// near_degenerate_ok = false maps the corners that put level splittings near pomerol's own 1e-8 resonance tolerance back to
// generic parameters: there the library's result is ill-conditioned by design (a term is 'resonant' or not depending on the
// last digits), so two DIFFERENT computations of the same quantity - an alias and a directly constructed component - may
// legitimately differ; oracles that compare different computations (C13) must not be fed such models. Differential oracles
// that compare the SAME computation on different rank counts (C06) can, and should.
inline Params params(int model, long mp, bool near_degenerate_ok = true) {
    hc::Rng r((uint64_t)mp * 2654435761ULL + model);
    Params p;
    auto g = [&](int lo, int hi) { return r.range(lo, hi) / 8.0; }; // eighths
    for (int i = 0; i < 3; i++) { p.U[i] = g(2, 24); p.eps[i] = -g(0, 16); }
    for (int i = 0; i < 2; i++) { p.t[i] = g(2, 12) * (r.pct(50) ? -1 : 1); }
    p.J = g(1, 4); p.h = g(1, 5);
    if (mp == 0) { for (int i = 0; i < 3; i++) { p.U[i] = 1.0; p.eps[i] = -0.5; } p.t[0] = p.t[1] = -1.0; p.J = 0.25; p.h = 0.25; } // the textbook half-filled case
    // special corners of parameter space (exact and near degeneracies are where tolerance-based term merging gets interesting)
    switch ((!near_degenerate_ok && (mp % 16 == 3 || mp % 16 == 4)) ? 15 : mp % 16) {
        case 1: p.U[1] = p.U[2] = p.U[0]; p.eps[1] = p.eps[2] = p.eps[0]; break;          // identical sites: exact degeneracies between blocks
        case 2: p.U[0] = p.U[1] = p.U[2] = 0; break;                                        // non-interacting
        case 3: p.t[0] = p.t[1] = std::pow(10.0, -(5 + (int)((mp / 16) % 6))); break;       // almost decoupled sites: level splittings of 1e-5 .. 1e-10
        case 4: p.h = std::pow(10.0, -(5 + (int)((mp / 16) % 6))); break;                   // tiny magnetic field
        case 5: p.J = 0; break;                                                             // density-density multi-orbital interaction
        case 6: case 7: case 8: p.h = std::pow(10.0, -(4 + (int)((mp / 16) % 3))); break;                   // small field, splittings 2e-4 .. 2e-6: well above the 1e-8 tolerance (well-conditioned)
        default: break;
    }
    return p;
}

// Everything up to (and excluding) the distributed diagonalisation; built independently by every rank, as real ranks would.
struct Stage0 {
    Lattice L;
    std::unique_ptr<IndexClassification> IndexInfo;
    std::unique_ptr<IndexHamiltonian> Storage;
    std::unique_ptr<Symmetrizer> Symm;
    std::unique_ptr<StatesClassification> S;
    std::unique_ptr<Hamiltonian> H;
    int model;

    // with complex matrix elements the hoppings carry a phase (exercises the complex code paths, incl. the raw broadcast of complex blocks)
    static MelemType hop(double t, double phase) {
#ifdef POMEROL_COMPLEX_MATRIX_ELEMENTS
        return MelemType(t * std::cos(phase), t * std::sin(phase));
#else
        (void)phase; return t;
#endif
    }

    Stage0(int model_, long mp, bool nosym, bool near_degenerate_ok = true) : model(model_ % N_MODELS) {
        Params p = params(model, mp, near_degenerate_ok);
        switch (model) {
            case ATOM: case ATOM_FIELD:
                L.addSite(new Lattice::Site("A", 1, 2));
                LatticePresets::addCoulombS(&L, "A", p.U[0], p.eps[0]);
                if (model == ATOM_FIELD) LatticePresets::addMagnetization(&L, "A", p.h);
                break;
            case ATOMS3:
                L.addSite(new Lattice::Site("A", 1, 2)); L.addSite(new Lattice::Site("B", 1, 2)); L.addSite(new Lattice::Site("C", 1, 2));
                LatticePresets::addCoulombS(&L, "A", p.U[0], p.eps[0]);
                LatticePresets::addCoulombS(&L, "B", p.U[1], p.eps[1]);
                LatticePresets::addCoulombS(&L, "C", p.U[2], p.eps[2]);
                break;
            case DIMER: case DIMER_FIELD: case ATOMS2: case TINYDIMER:
                L.addSite(new Lattice::Site("A", 1, 2)); L.addSite(new Lattice::Site("B", 1, 2));
                LatticePresets::addCoulombS(&L, "A", p.U[0], p.eps[0]);
                LatticePresets::addCoulombS(&L, "B", p.U[1], p.eps[1]);
                if (model != ATOMS2) LatticePresets::addHopping(&L, "A", "B", hop(p.t[0], p.h));
                if (model == DIMER_FIELD) LatticePresets::addMagnetization(&L, "A", p.h);
                if (model == TINYDIMER) LatticePresets::addHopping(&L, "A", "A", std::pow(10.0, -(6 + (int)(mp % 8))), 0, 0, up, down);   // breaks S_z by a hair
                break;
            case KANAMORI:
                L.addSite(new Lattice::Site("A", 2, 2));
                LatticePresets::addCoulombP(&L, "A", p.U[0], p.J, p.eps[0]);
                break;
            case EXCH2:   // two Hubbard sites coupled by hopping and a Heisenberg exchange (SzSz + S+S- + S-S+ terms)
                L.addSite(new Lattice::Site("A", 1, 2)); L.addSite(new Lattice::Site("B", 1, 2));
                LatticePresets::addCoulombS(&L, "A", p.U[0], p.eps[0]);
                LatticePresets::addCoulombS(&L, "B", p.U[1], p.eps[1]);
                LatticePresets::addHopping(&L, "A", "B", hop(p.t[0], 0));
                LatticePresets::addSS(&L, "A", "B", p.J);
                break;
            case T2G:
                L.addSite(new Lattice::Site("A", 3, 2));
                LatticePresets::addCoulombP(&L, "A", p.U[0], p.J, p.eps[0]);
                break;
            case CHAIN3:
                L.addSite(new Lattice::Site("A", 1, 2)); L.addSite(new Lattice::Site("B", 1, 2)); L.addSite(new Lattice::Site("C", 1, 2));
                LatticePresets::addCoulombS(&L, "A", p.U[0], p.eps[0]);
                LatticePresets::addCoulombS(&L, "B", p.U[1], p.eps[1]);
                LatticePresets::addCoulombS(&L, "C", p.U[2], p.eps[2]);
                LatticePresets::addHopping(&L, "A", "B", hop(p.t[0], p.h));
                LatticePresets::addHopping(&L, "B", "C", hop(p.t[1], p.J));
                break;
        }
        IndexInfo.reset(new IndexClassification(L.getSiteMap()));
        IndexInfo->prepare();
        Storage.reset(new IndexHamiltonian(&L, *IndexInfo));
        Storage->prepare();
        Symm.reset(new Symmetrizer(*IndexInfo, *Storage));
        Symm->compute(nosym);
        S.reset(new StatesClassification(*IndexInfo, *Symm));
        S->compute();
        H.reset(new Hamiltonian(*IndexInfo, *Storage, *S));
    }
};

// thermal stage: needs a computed Hamiltonian
struct Stage1 {
    std::unique_ptr<DensityMatrix> rho;
    std::unique_ptr<FieldOperatorContainer> Ops;
    Stage1(Stage0& s0, double beta) {
        rho.reset(new DensityMatrix(*s0.S, *s0.H, beta));
        rho->prepare(); rho->compute();
        Ops.reset(new FieldOperatorContainer(*s0.IndexInfo, *s0.S, *s0.H));
        Ops->prepareAll(); Ops->computeAll();
    }
};

inline IndexCombination4 quad(const std::string& s) { return IndexCombination4(s[0] - '0', s[1] - '0', s[2] - '0', s[3] - '0'); }
inline std::string quad_str(const IndexCombination4& q) { char b[8]; snprintf(b, sizeof b, "%u%u%u%u", q.Index1, q.Index2, q.Index3, q.Index4); return b; }
inline std::string rand_quad(hc::Rng& r, int nm) {
    std::string s(4, '0');
    int style = r.below(10);
    for (int i = 0; i < 4; i++) s[i] = '0' + r.below(nm);
    if (style < 3) { s[2] = s[0]; s[3] = s[1]; }            // density-like (ij;ij): non-vanishing for conserving models
    else if (style < 5) { s[2] = s[1]; s[3] = s[0]; }       // exchange partner (ij;ji)
    else if (style < 6) { s[1] = s[0]; }                    // equal annihilation indices (identically zero by Pauli)
    return s;
}

typedef boost::tuple<ComplexType, ComplexType, ComplexType> FreqTuple;
// "n1:n2:n3,..." explicit Matsubara triples, or "grid:N[:d]" = N triples enumerated deterministically, each repeated d times in a row
// (large and boundary-sized tables, adjacent duplicates)
inline std::vector<FreqTuple> freqs_from(const std::string& s, double beta) {
    std::vector<FreqTuple> out;
    double w = M_PI / beta;
    auto mk = [&](long n1, long n2, long n3) { return boost::make_tuple(ComplexType(0, w * (2 * n1 + 1)), ComplexType(0, w * (2 * n2 + 1)), ComplexType(0, w * (2 * n3 + 1))); };
    if (s.compare(0, 5, "grid:") == 0) {
        std::vector<std::string> p = hc::split(s, ':');
        long N = p.size() > 1 ? std::max(0L, std::min(20000L, atol(p[1].c_str()))) : 0, d = p.size() > 2 ? std::max(1L, atol(p[2].c_str())) : 1;
        for (long i = 0; i < N; i++) { long j = i / d; out.push_back(mk(j % 7 - 3, (j / 7) % 7 - 3, (j / 49) % 5 - 2)); }
        return out;
    }
    for (auto& t : hc::split(s, ',')) {
        if (t.empty()) continue;
        std::vector<std::string> p = hc::split(t, ':');
        if (p.size() != 3) continue;
        out.push_back(mk(atoi(p[0].c_str()), atoi(p[1].c_str()), atoi(p[2].c_str())));
    }
    return out;
}
inline std::string rand_freqs(hc::Rng& r, int n) {
    std::string s;
    for (int i = 0; i < n; i++) {
        int n1 = r.range(-3, 3), n2 = r.range(-3, 3), n3 = r.range(-3, 3);
        int style = r.below(8);
        if (style == 0) n3 = n1; else if (style == 1) n3 = n2; else if (style == 2) n2 = -1 - n1;
        std::string t = std::to_string(n1) + ":" + std::to_string(n2) + ":" + std::to_string(n3);
        if (i && r.pct(15)) { size_t c = s.rfind(','); t = c == std::string::npos ? s : s.substr(c + 1); }  // the same triple twice in a row
        if (i) s += ',';
        s += t;
    }
    return s;
}
// boundary-sized tables: powers of two and their neighbours, sizes around typical chunking constants
inline std::string rand_grid_freqs(hc::Rng& r, int max_n) {
    static const int sizes[] = {7, 8, 9, 15, 16, 17, 31, 32, 33, 63, 64, 65, 100, 127, 128, 129, 255, 256, 257, 511, 512, 513, 1000, 1023, 1024, 1025, 2048, 4095, 4096, 4097, 8192};
    std::vector<int> ok; for (int v : sizes) if (v <= max_n) ok.push_back(v);
    return "grid:" + std::to_string(r.pick(ok)) + (r.pct(30) ? ":2" : "");
}

} // namespace models
