// C17: seeded histories of the documented workflow on 1..4 simulated ranks in a sanitised build.
// The oracle is the sanitizers' silence (ASan kills the worker; UBSan reports are collected per run)
// plus "no crash"; preconditions keep every history inside the documented call order. DESIGN.md §3.4.
#define HC_MAIN_TU
#include <boost/mpi.hpp>
#include "common.hpp"
#include "models.hpp"
#include <pomerol/Vertex4.h>
#include <pomerol/Susceptibility.h>
#include <pomerol/EnsembleAverage.h>
#include <pomerol/OperatorPresets.h>
#include <set>
#include <cmath>

namespace mpi = boost::mpi;
using namespace Pomerol;
using models::quad; using models::quad_str;

struct Op { std::string kind; std::vector<std::string> a; };

static std::vector<Op> parse_ops(const std::string& s) {
    std::vector<Op> ops;
    for (auto& tok : hc::split(s, '|')) {
        if (tok.empty()) continue;
        std::vector<std::string> f = hc::split(tok, ':');
        Op op; op.kind = f[0]; op.a.assign(f.begin() + 1, f.end());
        ops.push_back(op);
    }
    return ops;
}

struct Counters { long ops_done = 0, skipped = 0, expected_exc = 0, gf_offdiag = 0, tpgf = 0, vertex = 0, susc = 0, avg = 0, trunc = 0, empty_freqs = 0, bounds_queries = 0; std::string unexpected; };

// 64-dimensional models: keep a single run affordable under the sanitizers (frequency grids <= 65 points, vertex window <= 1)
static std::string cap_grid(const std::string& fr, bool big) {
    if (!big || fr.compare(0, 5, "grid:") != 0) return fr;
    std::vector<std::string> p = hc::split(fr, ':');
    long n = p.size() > 1 ? atol(p[1].c_str()) : 0;
    return "grid:" + std::to_string(std::min(n, 65L)) + (p.size() > 2 ? ":" + p[2] : "");
}

static int dig(const std::string& s, size_t i, int nm) { return i < s.size() && s[i] >= '0' && s[i] < '0' + nm ? s[i] - '0' : 0; }

static void run_history(int model, long mp, bool nosym, const std::vector<Op>& ops, Counters& cnt) {
    mpi::communicator comm;
    models::Stage0 s0(model, mp, nosym);
    int nm = s0.IndexInfo->getIndexSize();
    const bool big = models::is_big(model);
    bool hPrep = false, hComp = false;
    std::unique_ptr<DensityMatrix> rho;
    std::unique_ptr<FieldOperatorContainer> Ops;
    std::unique_ptr<GFContainer> G;
    std::unique_ptr<TwoParticleGFContainer> Chi;
    double beta = 1;
    bool rhoComp = false, opsComp = false, gAll = false;
    volatile double sink = 0;
    auto use = [&](ComplexType z) { sink = sink + z.real() + z.imag(); };
    for (auto& op : ops) {
        const std::string& k = op.kind;
        auto arg = [&](size_t i) { return i < op.a.size() ? op.a[i] : std::string(); };
        try {
            if (k == "Hp") { s0.H->prepare(comm); hPrep = true; }
            else if (k == "Hc") { if (!hPrep) { cnt.skipped++; continue; } s0.H->compute(comm); hComp = true; }
            else if (k == "Q") {
                // state-label queries incl. the first invalid labels: must throw, never read out of bounds
                unsigned long N = s0.S->getNumberOfStates();
                for (unsigned long st = 0; st < N; st++) { BlockNumber b = s0.S->getBlockNumber(QuantumState(st)); InnerQuantumState in = s0.S->getInnerState(QuantumState(st)); if (s0.S->getFockState(b, in).to_ulong() != st) cnt.unexpected = "getFockState(getBlockNumber, getInnerState) is not the identity"; }
                for (unsigned long st = N; st < N + 2; st++) {
                    cnt.bounds_queries++;
                    try { BlockNumber b = s0.S->getBlockNumber(QuantumState(st)); (void)b; cnt.unexpected = "getBlockNumber(" + std::to_string(st) + ") of " + std::to_string(N) + " states did not throw"; } catch (std::exception&) { cnt.expected_exc++; }
                    try { s0.S->getInnerState(QuantumState(st)); cnt.unexpected = "getInnerState(" + std::to_string(st) + ") of " + std::to_string(N) + " states did not throw"; } catch (std::exception&) { cnt.expected_exc++; }
                }
                for (BlockNumber b = 0; b < s0.S->NumberOfBlocks(); b++) { try { s0.S->getFockState(b, s0.S->getBlockSize(b)); cnt.unexpected = "getFockState past the block did not throw"; } catch (std::exception&) { cnt.expected_exc++; } }
            }
            else if (k == "OP") {
                // symbolic operator algebra on the model's modes: presets, products, commutators, action on every Fock state
                using namespace OperatorPresets;
                int i = dig(arg(0), 0, nm), j = dig(arg(0), 1, nm);
                N Ntot(nm);
                std::vector<ParticleIndex> ups, downs; for (int m = 0; m < nm; m++) ((m % 2) ? ups : downs).push_back(m);
                Sz sz(ups, downs);
                Operator a = Cdag(i) * C(j), b = C(i) * Cdag(j), h = *s0.Storage;
                Operator comm = a.getCommutator(b), anti = Cdag(i).getAntiCommutator(C(j)), prod = h * a - a * h;
                bool c1 = h.commutes(Ntot), c2 = a.commutes(b), c3 = N_offdiag(i, j) == a; (void)c1; (void)c2; (void)c3;
                unsigned long NS = 1ul << nm;
                for (unsigned long st = 0; st < NS; st++) {
                    FockState ket(nm, st);
                    for (const Operator* op : {(const Operator*)&a, (const Operator*)&comm, (const Operator*)&anti, (const Operator*)&prod, (const Operator*)&Ntot, (const Operator*)&sz}) {
                        std::map<FockState, MelemType> out = op->actRight(ket);
                        for (auto& kv : out) { use(kv.second); use(op->getMatrixElement(kv.first, ket)); }
                    }
                    use(Ntot.getMatrixElement(ket)); use(sz.getMatrixElement(ket));
                }
            }
            else if (k == "M") {
                // the getters, printers and copies of the documented classes (output goes to a null stream)
                s0.L.printSites(); s0.L.printTerms(2); s0.L.printTerms(4);
                { Lattice copy(s0.L); copy.printTerms(2); }
                s0.IndexInfo->printIndices();
                for (int m = 0; m < nm; m++) { IndexClassification::IndexInfo info = s0.IndexInfo->getInfo(m); if ((int)s0.IndexInfo->getIndex(info) != m) cnt.unexpected = "IndexClassification::getIndex(getInfo(i)) != i"; s0.IndexInfo->checkIndex(m); }
                try { s0.IndexInfo->getInfo(nm); cnt.unexpected = "IndexClassification::getInfo(out of range) did not throw"; } catch (std::exception&) { cnt.expected_exc++; }
                { // user-supplied integrals of motion: N and every single-mode occupation that is conserved (all of them for density-density models)
                  Symmetrizer Sy2(*s0.IndexInfo, *s0.Storage); std::vector<Operator> iom; iom.push_back(OperatorPresets::N(nm));
                  for (int m = 0; m < nm; m++) { Operator n_m = OperatorPresets::N_offdiag(m, m); if (s0.Storage->commutes(n_m)) iom.push_back(n_m); }
                  Sy2.compute(iom); (void)Sy2.getQuantumNumbers();
                  StatesClassification S2(*s0.IndexInfo, Sy2); S2.compute(); sink = sink + S2.NumberOfBlocks();
                  Hamiltonian H2(*s0.IndexInfo, *s0.Storage, S2); H2.prepare(comm); H2.compute(comm); sink = sink + H2.getGroundEnergy(); }
                for (auto& o : s0.Symm->getOperations()) use(MelemType(o->commutes(*s0.Storage)));
                if (hComp) for (BlockNumber b = 0; b < s0.S->NumberOfBlocks(); b++) {
                    const HamiltonianPart& hp = s0.H->getPart(b);
                    (void)hp.getQuantumNumbers(); hp.print_to_screen();
                    for (InnerQuantumState i = 0; i < hp.getSize(); i++) { VectorType v = hp.getEigenState(i); use(v[0]); use(hp.getMatrixElement(i, i)); }
                    (void)s0.H->getPart(s0.S->getQuantumNumbers(b));
                }
                if (rhoComp) {
                    sink = sink + rho->getAverageEnergy() + rho->getAverageOccupancy();
                    for (int i = 0; i < nm; i++) { sink = sink + rho->getAverageOccupancy(i); for (int j = 0; j < nm; j++) sink = sink + rho->getAverageDoubleOccupancy(i, j); }
                    for (BlockNumber b = 0; b < s0.S->NumberOfBlocks(); b++) { const DensityMatrixPart& dp = rho->getPart(s0.S->getQuantumNumbers(b)); sink = sink + dp.getPartialZ() + dp.getAverageEnergy() + (rho->isRetained(b) ? 1 : 0); }
                }
                if (opsComp) for (int m = 0; m < nm; m++) {
                    const AnnihilationOperator& C = Ops->getAnnihilationOperator(m);
                    for (BlockNumber b = 0; b < s0.S->NumberOfBlocks(); b++) {
                        BlockNumber l = C.getLeftIndex(b);
                        if (!l.isCorrect()) continue;
                        const FieldOperatorPart& part = C.getPartFromRightIndex(b);
                        (void)part.getLeftIndex(); (void)part.getRightIndex(); part.print_to_screen();
                        sink = sink + part.getRowMajorValue().nonZeros() + part.getColMajorValue().nonZeros();
                    }
                }
                if (rhoComp && opsComp) {
                    GreensFunction g(*s0.S, *s0.H, Ops->getAnnihilationOperator(0), Ops->getCreationOperator(nm - 1), *rho);
                    g.prepare(); g.compute();
                    GreensFunction g2(g);
                    use(g2(1)); sink = sink + g2.getIndex(0) + g2.getIndex(1) + g2.isVanishing();
                }
                { DynamicIndexCombination a(nm), b(std::vector<ParticleIndex>(nm, 0)); for (int i = 0; i < nm; i++) a[i] = nm - 1 - i; bool lt = a < b, eq = a == b, ne = a != b; sink = sink + lt + eq + ne + a.getIndex(0) + a.getNumberOfIndices(); b = a;
                  try { a.getIndex(nm + 3); } catch (std::exception&) { cnt.expected_exc++; } }
            }
            else if (k == "D") {
                if (!hComp) { cnt.skipped++; continue; }
                beta = std::max(1, atoi(arg(0).c_str()));
                rho.reset(new DensityMatrix(*s0.S, *s0.H, beta)); rho->prepare(); rho->compute(); rhoComp = true;
                G.reset(); Chi.reset(); gAll = false;
                for (unsigned long st = 0; st < s0.S->getNumberOfStates(); st++) sink = sink + rho->getWeight(QuantumState(st));
            }
            else if (k == "T") { if (!rhoComp) { cnt.skipped++; continue; } rho->truncateBlocks(std::pow(10.0, -std::max(1, atoi(arg(0).c_str()))), false); cnt.trunc++; }
            else if (k == "O") { if (!hComp) { cnt.skipped++; continue; } Ops.reset(new FieldOperatorContainer(*s0.IndexInfo, *s0.S, *s0.H)); Ops->prepareAll(); Ops->computeAll(); opsComp = true; G.reset(); Chi.reset(); gAll = false; }
            else if (k == "G") { // one GreensFunction, possibly off-diagonal
                if (!rhoComp || !opsComp) { cnt.skipped++; continue; }
                int i = dig(arg(0), 0, nm), j = dig(arg(0), 1, nm);
                GreensFunction gf(*s0.S, *s0.H, Ops->getAnnihilationOperator(i), Ops->getCreationOperator(j), *rho);
                gf.prepare(); gf.compute();
                for (long n = -3; n <= 3; n++) use(gf(n));
                for (int t = 0; t <= 4; t++) use(gf.of_tau(beta * t / 4.0));
                if (i != j) cnt.gf_offdiag++;
            }
            else if (k == "GA") {
                if (!rhoComp || !opsComp) { cnt.skipped++; continue; }
                G.reset(new GFContainer(*s0.IndexInfo, *s0.S, *s0.H, *rho, *Ops)); G->prepareAll(); G->computeAll(); gAll = true;
                for (int i = 0; i < nm; i++) for (int j = 0; j < nm; j++) use((*G)(i, j)(0));
            }
            else if (k == "X") { // direct TwoParticleGF
                if (!rhoComp || !opsComp) { cnt.skipped++; continue; }
                std::string qs = arg(0); while (qs.size() < 4) qs += '0';
                IndexCombination4 q(dig(qs, 0, nm), dig(qs, 1, nm), dig(qs, 2, nm), dig(qs, 3, nm));
                TwoParticleGF chi(*s0.S, *s0.H, Ops->getAnnihilationOperator(q.Index1), Ops->getAnnihilationOperator(q.Index2), Ops->getCreationOperator(q.Index3), Ops->getCreationOperator(q.Index4), *rho);
                chi.prepare();
                std::string fr = arg(2); for (size_t i = 3; i < op.a.size(); i++) fr += ":" + op.a[i];
                std::vector<models::FreqTuple> freqs = models::freqs_from(cap_grid(fr, big), beta);
                if (freqs.empty()) cnt.empty_freqs++;
                bool clear = arg(1) == "c";
                std::vector<ComplexType> t = chi.compute(clear, freqs, comm);
                for (auto& z : t) use(z);
                if (!clear) { use(chi(0, 0, 0)); use(chi(1, -2, 3)); }
                cnt.tpgf++;
            }
            else if (k == "K") { // container bulk computation
                if (!rhoComp || !opsComp) { cnt.skipped++; continue; }
                Chi.reset(new TwoParticleGFContainer(*s0.IndexInfo, *s0.S, *s0.H, *rho, *Ops));
                std::set<IndexCombination4> idx;
                for (auto& qs0 : hc::split(arg(0), ',')) { std::string qs = qs0; while (qs.size() < 4) qs += '0'; idx.insert(IndexCombination4(dig(qs, 0, nm), dig(qs, 1, nm), dig(qs, 2, nm), dig(qs, 3, nm))); }
                if (idx.empty()) idx.insert(IndexCombination4(0, 0, 0, 0));
                while (big && idx.size() > 2) idx.erase(--idx.end());
                Chi->prepareAll(idx);
                std::string fr = arg(2); for (size_t i = 3; i < op.a.size(); i++) fr += ":" + op.a[i];
                std::vector<models::FreqTuple> freqs = models::freqs_from(cap_grid(fr, big), beta);
                if (freqs.empty()) cnt.empty_freqs++;
                std::map<IndexCombination4, std::vector<ComplexType> > t = Chi->computeAll(false, freqs, comm, arg(1) != "n");
                for (auto& kv : t) for (auto& z : kv.second) use(z);
                for (auto& kv : Chi->ElementsMap) use(kv.second(0, 1, 0));
                cnt.tpgf++;
            }
            else if (k == "V") { // vertex of one component with storage of N Matsubaras, evaluated across the whole storage window and beyond
                if (!rhoComp || !opsComp) { cnt.skipped++; continue; }
                std::string qs = arg(0); while (qs.size() < 4) qs += '0';
                IndexCombination4 q(dig(qs, 0, nm), dig(qs, 1, nm), dig(qs, 2, nm), dig(qs, 3, nm));
                TwoParticleGF chi(*s0.S, *s0.H, Ops->getAnnihilationOperator(q.Index1), Ops->getAnnihilationOperator(q.Index2), Ops->getCreationOperator(q.Index3), Ops->getCreationOperator(q.Index4), *rho);
                chi.prepare(); chi.compute(false, std::vector<models::FreqTuple>(), comm);
                auto mk = [&](int i, int j) { std::unique_ptr<GreensFunction> g(new GreensFunction(*s0.S, *s0.H, Ops->getAnnihilationOperator(i), Ops->getCreationOperator(j), *rho)); g->prepare(); g->compute(); return g; };
                std::unique_ptr<GreensFunction> g13 = mk(q.Index1, q.Index3), g24 = mk(q.Index2, q.Index4), g14 = mk(q.Index1, q.Index4), g23 = mk(q.Index2, q.Index3);
                Vertex4 V(chi, *g13, *g24, *g14, *g23);
                long N = std::max(0, atoi(arg(1).c_str())) % (big ? 2 : 4);
                V.compute(N);
                long lo = -2 * N - 2, hi = 2 * N + 1;
                for (long n1 = lo; n1 <= hi; n1++) for (long n2 = lo; n2 <= hi; n2++) for (long n3 = lo; n3 <= hi; n3 += (big ? std::max(1L, (hi - lo) / 2) : 1)) use(V(n1, n2, n3));
                use(V.value(0, 1, 0));
                cnt.vertex++;
            }
            else if (k == "S") { // susceptibility <A;B> of two quadratic operators (S_z-changing ones included)
                if (!rhoComp) { cnt.skipped++; continue; }
                int a1 = dig(arg(0), 0, nm), a2 = dig(arg(0), 1, nm), b1 = dig(arg(0), 2, nm), b2 = dig(arg(0), 3, nm);
                QuadraticOperator A(*s0.IndexInfo, *s0.S, *s0.H, a1, a2), B(*s0.IndexInfo, *s0.S, *s0.H, b1, b2);
                A.prepare(); A.compute(); B.prepare(); B.compute();
                Susceptibility X(*s0.S, *s0.H, A, B, *rho);
                X.prepare(); X.compute();
                if (arg(1) == "d") X.subtractDisconnected();
                for (long n = -2; n <= 2; n++) use(X(n));
                for (int t = 0; t <= 3; t++) use(X.of_tau(beta * t / 3.0));
                cnt.susc++;
            }
            else if (k == "A") {
                if (!rhoComp) { cnt.skipped++; continue; }
                QuadraticOperator A(*s0.IndexInfo, *s0.S, *s0.H, dig(arg(0), 0, nm), dig(arg(0), 1, nm));
                A.prepare(); A.compute();
                EnsembleAverage EA(*s0.S, *s0.H, A, *rho); EA.prepare(); use(EA.getResult());
                cnt.avg++;
            }
            else { cnt.skipped++; continue; }
            cnt.ops_done++;
        } catch (sim::Abort&) { throw; }
        catch (std::exception& e) {
            // an exception inside the documented order is not a memory-safety matter by itself; all ranks see the same one (SPMD)
            cnt.unexpected = "op " + k + " threw: " + e.what();
            throw;
        }
    }
}

static std::string gen_ops(hc::Rng& r, int nm) {
    auto q4 = [&]() { return models::rand_quad(r, nm); };
    auto q2 = [&]() { std::string s; s += '0' + r.below(nm); s += '0' + r.below(nm); return s; };
    auto fr = [&]() { int x = r.below(100); return x < 35 ? std::string("") : x < 42 ? models::rand_grid_freqs(r, 300) : models::rand_freqs(r, r.range(1, 4)); };
    std::vector<std::string> ops;
    // mostly the documented order with repetitions, omissions and interleavings of the later stages
    if (r.pct(95)) ops.push_back("Hp");
    if (r.pct(15)) ops.push_back("Hp");
    if (r.pct(95)) ops.push_back("Hc");
    if (r.pct(15)) ops.push_back("Hc");
    if (r.pct(30)) ops.push_back("Q");
    if (r.pct(20)) ops.push_back("OP:" + q2());
    if (r.pct(10)) ops.push_back("M");
    ops.push_back("D:" + std::to_string(r.pick(std::vector<int>{1, 2, 5, 10, 20, 40})));
    if (r.pct(20)) ops.push_back("T:" + std::to_string(r.range(1, 8)));
    ops.push_back("O");
    int n = r.range(1, 6);
    for (int i = 0; i < n; i++) {
        int x = r.below(100);
        if (x < 22) ops.push_back("G:" + q2());
        else if (x < 32) ops.push_back("GA");
        else if (x < 50) ops.push_back("X:" + q4() + ":" + (r.pct(20) ? "c" : "k") + ":" + fr());
        else if (x < 64) { std::string qs = q4(); int m = r.range(0, 2); for (int j = 0; j < m; j++) qs += "," + q4(); ops.push_back("K:" + qs + ":" + (r.pct(60) ? "s" : "n") + ":" + fr()); }
        else if (x < 72) ops.push_back("V:" + q4() + ":" + std::to_string(r.range(0, 3)));
        else if (x < 88) ops.push_back("S:" + q2() + q2() + ":" + (r.pct(50) ? "d" : "k"));
        else if (x < 94) ops.push_back("A:" + q2());
        else if (x < 96) ops.push_back("T:" + std::to_string(r.range(1, 8)));
        else if (x < 98) ops.push_back("M");
        else ops.push_back("D:" + std::to_string(r.pick(std::vector<int>{1, 3, 10})));
    }
    std::string s; for (auto& o : ops) { if (!s.empty()) s += '|'; s += o; }
    return s;
}

static hc::Outcome run_one(hc::RunSpec& rs) {
    hc::Cfg& c = rs.cfg;
    hc::Rng r(rs.seed ^ 0xC17C17ULL);
    int P; { int x = r.below(100); P = x < 40 ? 1 : x < 70 ? 2 : x < 88 ? 3 : 4; }
    c.def("P", P); P = std::max(1, std::min(8, (int)c.i("P"))); c.set("P", P);
#ifdef SIM_GOMP_THREADS
    P = 1; c.set("P", 1);   // real-thread build: one inline rank, teams of real threads (race detection over the whole workflow)
#endif
    bool big = c.i("big", 0) != 0;
    int model; { int x = r.below(100); model = x < 22 ? models::ATOM : x < 55 ? models::DIMER : x < 70 ? models::KANAMORI : x < 78 ? models::ATOM_FIELD : x < 84 ? models::DIMER_FIELD : x < 89 ? models::ATOMS2 : x < 93 ? models::EXCH2 : x < 96 ? models::TINYDIMER : x < 98 ? models::ATOMS3 : (big ? (r.pct(50) ? models::CHAIN3 : models::T2G) : models::KANAMORI); }
    c.def("model", model); model = (int)c.i("model") % models::N_MODELS; if (model < 0) model = 0; c.set("model", model);
    c.def("mp", r.pct(15) ? 0 : r.range(1, 100000));
    c.def("nosym", r.pct(40));   // one block: off-diagonal components whose sparse matrices have different sparsity patterns
    if (models::is_big(model)) c.set("nosym", 0);   // one 64-dimensional block makes a single two-particle GF cost minutes under the sanitizers
    int nm = models::nmodes(model);
    c.def("ops", gen_ops(r, nm));
    hc::sim_defaults_from_seed(c, r, P);
#ifdef SIM_GOMP_THREADS
    if (c.i("omp") < 2) c.set("omp", 2 + (long)(rs.seed % 7));
    if (c.i("omp") > 8) c.set("omp", 8);
#endif
    std::vector<Op> ops = parse_ops(c.s("ops"));
    if (ops.size() > 24) ops.resize(24);

    hc::announce(rs);
    sim::Options o = hc::sim_options(c, P, rs.seed);
    o.replay = rs.replay; o.replay_choices = rs.choices; o.keep_choices = rs.want_choices;
    std::vector<Counters> cnt(P);
    hc::Outcome oc;
    sim::Result res;
    {
        sim::World wd(o);
        res = wd.run([&](int rank) { run_history(model, c.i("mp"), c.i("nosym") != 0, ops, cnt[rank]); });
        if (rs.want_trace || res.verdict != "ok") oc.trace = wd.format_trace(rs.want_trace ? 20000 : 300);
    }
    oc.absorb(res);
    oc.choices = res.choices;
    for (int p = 0; p < P; p++) if (!cnt[p].unexpected.empty() && (oc.verdict == "ok" || oc.verdict == "exception")) { oc.verdict = cnt[p].unexpected.find("did not throw") != std::string::npos ? "bounds-check-missing" : "workflow-exception"; oc.detail = "rank " + std::to_string(p) + ": " + cnt[p].unexpected; break; }
    const Counters& c0 = cnt[0];
    if (c0.gf_offdiag) oc.probes["offdiagonal_gf"]++;
    if (c0.gf_offdiag && c.i("nosym")) oc.probes["offdiagonal_gf_in_single_block"]++;
    if (c0.tpgf) oc.probes["two_particle_gf"]++;
    if (c0.empty_freqs) oc.probes["empty_frequency_list"]++;
    if (c0.vertex) oc.probes["vertex_with_storage"]++;
    if (c0.susc) oc.probes["susceptibility"]++;
    if (c0.avg) oc.probes["ensemble_average"]++;
    if (c0.trunc) oc.probes["truncate_blocks"]++;
    if (c0.bounds_queries) oc.probes["state_label_bounds_queries"]++;
    if (c0.skipped) oc.probes["op_skipped_by_precondition"]++;
    if (model == models::ATOM || model == models::ATOM_FIELD) oc.probes["one_dimensional_blocks"]++;
    if (P > 1) oc.probes["multi_rank"]++;
    oc.sig = std::to_string(std::hash<std::string>()(c.s("ops")) % 1000000007);
    return oc;
}

int main(int argc, char** argv) { return hc::harness_main(argc, argv, "c17_workflow", run_one); }
