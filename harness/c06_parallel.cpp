// C06: the whole ED workflow SPMD on P simulated ranks / T simulated OpenMP threads, differential
// oracle against the same workflow on 1 rank / 1 thread under the default schedule. DESIGN.md §3.2.
#define HC_MAIN_TU
#include <boost/mpi.hpp>
#include "common.hpp"
#include "models.hpp"
#include <set>
#include <cmath>

namespace mpi = boost::mpi;
using namespace Pomerol;
using models::quad; using models::quad_str;

// ---- observations of one rank --------------------------------------------------------------------------------
struct Item { std::string label; std::vector<double> v; std::string exc; bool root_only; };
typedef std::vector<Item> Obs;

static void put(Obs& o, const std::string& label, const std::vector<double>& v, bool root_only = false) { o.push_back(Item{label, v, "", root_only}); }
static void put_exc(Obs& o, const std::string& label, const std::string& what, bool root_only = false) { o.push_back(Item{label, {}, what, root_only}); }
static void push(std::vector<double>& v, ComplexType z) { v.push_back(z.real()); v.push_back(z.imag()); }

struct Call { bool split, clear; };
struct Workload {
    int model; long mp; bool nosym; double beta; int wf; int hrep;
    std::vector<Call> calls;      // consecutive bulk computations on the same objects ("s0" = split, keep terms; "n1" = unsplit, clear terms)
    std::vector<std::string> quads; std::string freqs;
};

static const long EVAL_N[][3] = {{0, 0, 0}, {1, -2, 0}, {-1, 0, -1}, {2, 1, 2}, {0, -1, 3}};
static const double EVAL_Z[][6] = {{0.3, 1.1, -0.2, 0.7, 0.45, -1.3}, {-0.6, 2.3, 0.15, -0.9, 0.8, 1.9}};

// the documented workflow, as one rank executes it
static void workflow(const Workload& w, const mpi::communicator& comm, Obs& obs, std::map<std::string, long>* probes) {
    const bool root = comm.rank() == 0;
    models::Stage0 s0(w.model, w.mp, w.nosym);
    s0.H->prepare(comm);
    if (w.hrep & 1) s0.H->prepare(comm);   // the documented calls are idempotent: a repeated call must be harmless on every rank
    s0.H->compute(comm);
    if (w.hrep & 2) s0.H->compute(comm);
    if (w.hrep & 4) s0.H->prepare(comm);
    { // (2) eigen-data on every rank
        std::vector<double> ev, vecs;
        for (BlockNumber b = 0; b < s0.S->NumberOfBlocks(); b++) {
            const HamiltonianPart& hp = s0.H->getPart(b);
            const RealVectorType& e = hp.getEigenValues();
            for (int i = 0; i < e.size(); i++) ev.push_back(e[i]);
            const MatrixType& m = hp.getMatrix();
            for (int i = 0; i < m.rows(); i++) for (int j = 0; j < m.cols(); j++) { ComplexType z = m(i, j); vecs.push_back(z.real()); vecs.push_back(z.imag()); }
        }
        ev.push_back(s0.H->getGroundEnergy());
        { RealVectorType all = s0.H->getEigenValues(); for (int i = 0; i < all.size(); i++) ev.push_back(all[i]); }   // the concatenated spectrum, as the interface returns it
        for (unsigned long st = 0; st < s0.S->getNumberOfStates(); st++) ev.push_back(s0.H->getEigenValue(QuantumState(st)));
        put(obs, "eigenvalues", ev); put(obs, "eigenvectors", vecs);
    }
    models::Stage1 s1(s0, w.beta);
    { // (3) single-particle GF on every rank
        GFContainer G(*s0.IndexInfo, *s0.S, *s0.H, *s1.rho, *s1.Ops);
        G.prepareAll(); G.computeAll();
        std::vector<double> g;
        int nm = s0.IndexInfo->getIndexSize();
        for (int i = 0; i < nm; i++) for (int j = 0; j < nm; j++) for (long n = -2; n <= 2; n++) push(g, G(i, j)(n));
        put(obs, "G", g);
    }
    std::vector<models::FreqTuple> freqs = models::freqs_from(w.freqs, w.beta);
    auto eval_component = [&](const std::string& label, TwoParticleGF& chi, ElementWithPermFreq<TwoParticleGF>* via) {
        std::vector<double> v;
        try {
            for (auto& n : EVAL_N) push(v, via ? (*via)(n[0], n[1], n[2]) : chi(n[0], n[1], n[2]));
            for (auto& z : EVAL_Z) push(v, chi(ComplexType(z[0], z[1]), ComplexType(z[2], z[3]), ComplexType(z[4], z[5])));
            v.push_back(chi.isVanishing());
            v.push_back((double)chi.parts.size());
            for (size_t p = 0; p < chi.parts.size(); p++) { v.push_back((double)chi.parts[p]->getNumResonantTerms()); v.push_back((double)chi.parts[p]->getNumNonResonantTerms()); }
            put(obs, label, v);
        } catch (sim::Abort&) { throw; }
        catch (std::exception& e) { put_exc(obs, label, e.what()); }
    };
    if (w.wf == 0) {
        // one TwoParticleGF computed directly over the communicator
        for (size_t k = 0; k < w.quads.size(); k++) {
            IndexCombination4 q = quad(w.quads[k]);
            TwoParticleGF chi(*s0.S, *s0.H, s1.Ops->getAnnihilationOperator(q.Index1), s1.Ops->getAnnihilationOperator(q.Index2),
                              s1.Ops->getCreationOperator(q.Index3), s1.Ops->getCreationOperator(q.Index4), *s1.rho);
            chi.prepare();
            if (w.hrep & 8) chi.prepare();
            for (size_t ci = 0; ci < w.calls.size(); ci++) {
                std::vector<ComplexType> table = chi.compute(w.calls[ci].clear, freqs, comm);
                std::vector<double> t; for (auto& z : table) push(t, z);
                put(obs, "table[" + w.quads[k] + "]#" + std::to_string(k) + "/call" + std::to_string(ci), t, /*root_only=*/true); // TwoParticleGF::compute reduces to the root
                eval_component("chi[" + w.quads[k] + "]#" + std::to_string(k) + "/call" + std::to_string(ci), chi, 0);
            }
            if (probes && chi.isVanishing()) (*probes)["vanishing_component"]++;
            if (probes && !root && !chi.isVanishing()) (*probes)["evaluated_on_nonroot_rank"]++;
        }
    } else {
        TwoParticleGFContainer Chi(*s0.IndexInfo, *s0.S, *s0.H, *s1.rho, *s1.Ops);
        std::set<IndexCombination4> idx;
        for (auto& q : w.quads) idx.insert(quad(q));
        Chi.prepareAll(idx);
        for (size_t ci = 0; ci < w.calls.size(); ci++) {
            const Call& call = w.calls[ci];
            std::string cs = "/call" + std::to_string(ci);
            std::map<IndexCombination4, std::vector<ComplexType> > tables = Chi.computeAll(call.clear, freqs, comm, call.split);
            { // (4) returned tables: key set and values. split: every rank (the code broadcasts); unsplit: root (the code reduces to root)
                std::vector<double> keys;
                for (auto& kv : tables) { keys.push_back(kv.first.Index1); keys.push_back(kv.first.Index2); keys.push_back(kv.first.Index3); keys.push_back(kv.first.Index4); keys.push_back((double)kv.second.size()); }
                put(obs, "table-keys" + cs, keys, false);
                for (auto& kv : tables) { std::vector<double> t; for (auto& z : kv.second) push(t, z); put(obs, "table[" + quad_str(kv.first) + "]" + cs, t, !call.split); }
            }
            // (5) every listed component evaluated from its terms on every rank
            for (auto& kv : Chi.ElementsMap) {
                ElementWithPermFreq<TwoParticleGF>& e = Chi(kv.first);
                eval_component("chi[" + quad_str(kv.first) + "]" + cs, static_cast<TwoParticleGF&>(e), &e);
            }
        }
        if (probes) {
            size_t nt = Chi.NonTrivialElements.size();
            int P = comm.size();
            bool any_split = false; for (auto& c : w.calls) any_split = any_split || c.split;
            if ((int)nt < P) (*probes)["components_fewer_than_ranks"]++;
            if (nt && P % nt && nt % P) (*probes)["components_and_ranks_coprime_ish"]++;
            if (any_split && P > (int)nt && nt) (*probes)["colour_with_2+_ranks"]++;
            if (any_split && nt > (size_t)P && nt % P) (*probes)["colours_with_unequal_components"]++;
            if (w.calls.size() > 1) (*probes)["repeated_bulk_computation"]++;
            for (auto& kv : Chi.NonTrivialElements) if (kv.second->isVanishing()) { (*probes)["vanishing_component"]++; break; }
        }
    }
    if (probes) {
        if ((int)s0.S->NumberOfBlocks() < comm.size()) (*probes)["blocks_fewer_than_ranks"]++;
        if (freqs.empty()) (*probes)["empty_frequency_list"]++;
        for (auto& c : w.calls) if (c.clear) { (*probes)["clear_terms"]++; break; }
        if (w.hrep) (*probes)["repeated_prepare_or_compute"]++;
        if (sim::cur()->opt().omp_threads > (int)freqs.size() && !freqs.empty()) (*probes)["omp_team_larger_than_freqs"]++;
    }
}

static std::string compare(const Obs& ref, const Obs& got, int rank) {
    std::ostringstream os;
    if (ref.size() != got.size()) { os << "rank " << rank << ": " << got.size() << " observations, reference has " << ref.size(); return os.str(); }
    for (size_t i = 0; i < ref.size(); i++) {
        const Item& a = ref[i]; const Item& b = got[i];
        if (a.label != b.label) { os << "rank " << rank << ": observation " << i << " is '" << b.label << "', reference '" << a.label << "'"; return os.str(); }
        if (a.root_only && rank != 0) continue;
        if (a.exc != b.exc) { os << "rank " << rank << ": " << a.label << (b.exc.empty() ? " did not throw but the reference threw: " + a.exc : " threw: " + b.exc + (a.exc.empty() ? " (reference: no exception)" : " (reference: " + a.exc + ")")); return os.str(); }
        if (a.v.size() != b.v.size()) { os << "rank " << rank << ": " << a.label << " has " << b.v.size() << " values, reference " << a.v.size(); return os.str(); }
        double tol = (a.label == "eigenvalues" || a.label == "eigenvectors") ? 1e-12 : 1e-9;
        for (size_t k = 0; k < a.v.size(); k++) {
            double d = std::fabs(a.v[k] - b.v[k]);
            if (!(d <= tol * (1 + std::fabs(a.v[k])))) { os << "rank " << rank << ": " << a.label << "[" << k << "] = " << b.v[k] << ", reference " << a.v[k] << " (|diff| " << d << ")"; return os.str(); }
        }
    }
    return "";
}

static std::string violation_class(const std::string& msg) {
    if (msg.find("eigen") != std::string::npos) return "eigen-mismatch";
    if (msg.find(" G[") != std::string::npos) return "gf-mismatch";
    if (msg.find("table") != std::string::npos) return "table-mismatch";
    if (msg.find("threw") != std::string::npos || msg.find("throw") != std::string::npos) return "evaluation-throws";
    if (msg.find("chi[") != std::string::npos) return "chi-mismatch";
    return "observation-mismatch";
}

// reference cache: workload string -> observations of the 1-rank/1-thread run
static std::map<std::string, Obs> g_refcache;
static std::vector<std::string> g_reforder;

static hc::Outcome run_one(hc::RunSpec& rs) {
    hc::Cfg& c = rs.cfg;
    hc::Rng r(rs.seed ^ 0xC06C06ULL);
    bool thorough_models = c.i("big", 0) != 0;
    int P; { int x = r.below(100); P = x < 10 ? 1 : x < 60 ? r.range(2, 4) : x < 85 ? r.range(5, 8) : r.pick(std::vector<int>{9, 12, 16}); }
    c.def("P", P); P = std::max(1, std::min(16, (int)c.i("P"))); c.set("P", P);
    int model; { int x = r.below(100); model = x < 25 ? models::ATOM : x < 60 ? models::DIMER : x < 72 ? models::KANAMORI : x < 80 ? models::ATOM_FIELD : x < 86 ? models::DIMER_FIELD : x < 89 ? models::ATOMS2 : x < 92 ? models::EXCH2 : x < 96 ? models::TINYDIMER : (thorough_models ? (r.pct(70) ? models::CHAIN3 : models::T2G) : models::DIMER); }
    c.def("model", model); model = (int)c.i("model") % models::N_MODELS; if (model < 0) model = 0; c.set("model", model);
    c.def("mp", r.pct(15) ? 0 : r.range(1, 100000));
    c.def("nosym", r.pct(15));
    if (models::is_big(model)) c.set("nosym", 0);   // one 64-dimensional block makes a single two-particle GF cost minutes under the sanitizers
    c.def("beta", r.pick(std::vector<int>{1, 2, 3, 5, 8, 10, 20}));
    c.def("wf", r.pct(25) ? 0 : 1);
    { // 1..3 consecutive bulk computations; the first is split with 65 %, clears terms with 12 %
        int nc = r.pct(65) ? 1 : r.range(2, 3); std::string cs;
        for (int i = 0; i < nc; i++) { if (i) cs += ','; cs += r.pct(65) ? 's' : 'n'; cs += r.pct(nc > 1 ? 30 : 12) ? '1' : '0'; }
        c.def("calls", cs);
    }
    c.def("hrep", r.pct(80) ? 0 : r.range(1, 15));
    c.def("G", (P >= 2 && r.pct(15)) ? r.range(2, 3) : 1);
    int nm = models::nmodes(model);
    int K = (c.i("wf") == 0) ? r.range(1, 2) : r.range(1, nm == 2 ? 6 : models::is_big(model) ? 2 : 5);
    { std::string q; std::set<std::string> seen; for (int k = 0; k < K; k++) { std::string s = models::rand_quad(r, nm); if (c.i("wf") == 1 && !seen.insert(s).second) continue; if (!q.empty()) q += ','; q += s; } c.def("quads", q); }
    { int x = r.below(100); c.def("freqs", x < 18 ? std::string("-") : x < 26 ? models::rand_grid_freqs(r, (model == models::ATOM || model == models::ATOM_FIELD) ? 8192 : models::is_big(model) ? 65 : 1025) : models::rand_freqs(r, r.range(1, 6))); }
    hc::sim_defaults_from_seed(c, r, P);
    // normalise
    Workload w;
    w.model = model; w.mp = c.i("mp"); w.nosym = c.i("nosym") != 0; w.beta = std::max(1L, c.i("beta")); w.wf = c.i("wf") ? 1 : 0; w.hrep = (int)(c.i("hrep") & 15);
    for (auto& t : hc::split(c.s("calls"), ',')) if (t.size() == 2 && (t[0] == 's' || t[0] == 'n')) w.calls.push_back(Call{t[0] == 's', t[1] == '1'});
    if (w.calls.empty()) w.calls.push_back(Call{true, false});
    if (w.calls.size() > 3) w.calls.resize(3);
    { std::string cs; for (auto& cl : w.calls) { if (!cs.empty()) cs += ','; cs += cl.split ? 's' : 'n'; cs += cl.clear ? '1' : '0'; } c.set("calls", cs); }
    for (auto& q : hc::split(c.s("quads"), ',')) { if (q.size() != 4) continue; bool ok = true; for (char ch : q) if (ch < '0' || ch >= '0' + nm) ok = false; if (ok) w.quads.push_back(q); }
    if (w.quads.empty()) w.quads.push_back("0101");
    { std::string q; for (auto& s : w.quads) { if (!q.empty()) q += ','; q += s; } c.set("quads", q); }
    c.set("mp", w.mp); c.set("nosym", w.nosym); c.set("beta", (long)w.beta); c.set("wf", w.wf); c.set("hrep", w.hrep);
    if (c.s("freqs").empty()) c.set("freqs", "-");
    w.freqs = c.s("freqs") == "-" ? "" : c.s("freqs");
    // ---- groups: the library is handed a communicator; with G > 1 the world is split and every group runs the workflow on
    // its own sub-communicator with its OWN variant of the workload (group g drops the last g quadruples and repeats other
    // calls), so that the groups execute different numbers of collectives: anything that synchronises on the world instead
    // of on the communicator it was given pairs up wrongly
    int G = (int)c.i("G", 1); if (G < 1) G = 1; if (G > P) G = P; if (G > 3) G = 3; c.set("G", G);
    hc::announce(rs);
    hc::Outcome oc;
    std::vector<Workload> gw(G, w);
    std::vector<const Obs*> gref(G, nullptr);
    for (int g = 0; g < G; g++) {
        Workload& x = gw[g];
        for (int k = 0; k < g && x.quads.size() > 1; k++) x.quads.pop_back();
        if (g) x.hrep = (w.hrep + 3 * g) & 15;
        std::string qs; for (auto& q : x.quads) { if (!qs.empty()) qs += ','; qs += q; }
        std::string wkey = "model=" + std::to_string(x.model) + " mp=" + std::to_string(x.mp) + " nosym=" + std::to_string(x.nosym) + " beta=" + std::to_string((int)x.beta) + " wf=" + std::to_string(x.wf) +
                           " calls=" + c.s("calls") + " hrep=" + std::to_string(x.hrep) + " quads=" + qs + " freqs=" + c.s("freqs");
        // ---- reference: 1 rank, 1 thread, default schedule
        if (!g_refcache.count(wkey)) {
            sim::Options ro; ro.nranks = 1; ro.seed = 0; ro.omp_threads = 1;
            Obs ref;
            sim::World rw(ro);
            sim::Result rr = rw.run([&](int) { mpi::communicator world; workflow(x, world, ref, 0); });
            oc.nworlds++;
            if (rr.verdict != "ok") {
                // the reference itself fails: the workload is outside the supported workflow at P=1 already -> report as such (not a parallel issue)
                oc.verdict = "reference-" + rr.verdict; oc.detail = "the 1-rank/1-thread run itself ended with: " + rr.detail;
                return oc;
            }
            if (g_reforder.size() >= 32) { g_refcache.erase(g_reforder.front()); g_reforder.erase(g_reforder.begin()); }
            g_refcache[wkey] = ref; g_reforder.push_back(wkey);
        }
        gref[g] = &g_refcache[wkey];
    }
    std::vector<Obs> refcopy; for (int g = 0; g < G; g++) refcopy.push_back(*gref[g]);   // the cache may evict while later groups are computed

    sim::Options o = hc::sim_options(c, P, rs.seed);
    o.replay = rs.replay; o.replay_choices = rs.choices; o.keep_choices = rs.want_choices;
    std::vector<Obs> obs(P);
    std::vector<std::map<std::string, long> > probes(P);
    std::vector<int> group_of(P, 0), grank(P, 0);
    sim::Result res;
    {
        sim::World wd(o);
        res = wd.run([&](int rank) {
            mpi::communicator world;
            if (G == 1) { workflow(gw[0], world, obs[rank], &probes[rank]); return; }
            int g = rank * G / P;
            mpi::communicator sub = world.split(g);
            group_of[rank] = g; grank[rank] = sub.rank();
            workflow(gw[g], sub, obs[rank], &probes[rank]);
        });
        if (rs.want_trace || res.verdict != "ok") oc.trace = wd.format_trace(rs.want_trace ? 20000 : 300);
        // coverage signature: which rank received which job (sequence of Work messages sent by a master)
        std::ostringstream sig;
        wd.for_each_event([&](const sim::Event& e) { if (e.kind == sim::EV_SEND && e.c == 1 /*tag Work*/) sig << e.b; });
        oc.sig = "P" + std::to_string(P) + ":" + std::to_string(std::hash<std::string>()(sig.str()) % 100000007);
    }
    oc.absorb(res);
    oc.choices = res.choices;
    if (res.verdict == "ok") {
        for (int p = 0; p < P && oc.verdict == "ok"; p++) {
            std::string d = compare(refcopy[group_of[p]], obs[p], G == 1 ? p : grank[p]);
            if (!d.empty()) { oc.verdict = violation_class(d); oc.detail = (G > 1 ? "group " + std::to_string(group_of[p]) + ", world rank " + std::to_string(p) + " = " : "") + d; }
        }
    }
    if (G > 1) oc.probes["workflow_on_subcommunicators"]++;
    for (int p = 0; p < P; p++) for (auto& kv : probes[p]) oc.probes[kv.first] += kv.second;
    if (res.st.omp_max_team > 1 && res.st.omp_regions) oc.probes["omp_team_2+"]++;
    if (res.st.reduce_shuffled) oc.probes["reduction_order_shuffled"]++;
    if (res.st.splits) oc.probes["communicator_split"]++;
    if (res.st.stalls) oc.probes["stall_injected"]++;
    if (res.st.rdv_blocked) oc.probes["rendezvous_send_blocked"]++;
    if (P == 1) oc.probes["single_rank"]++;
    return oc;
}

int main(int argc, char** argv) { return hc::harness_main(argc, argv, "c06_parallel", run_one); }
