// Shared harness plumbing: CLI, per-seed loop, result lines, sanitizer attribution, config strings.
#pragma once
#include "sim.hpp"
#include <cstdio>
#include <cstdlib>
#include <cstring>
#include <string>
#include <vector>
#include <map>
#include <sstream>
#include <iostream>
#include <fstream>
#include <chrono>
#include <unistd.h>
#include <signal.h>
#include <sys/time.h>
#include <functional>

namespace hc {

// ---- sanitizer attribution ---------------------------------------------------------------------------
inline std::vector<std::string>& ubsan_reports() { static std::vector<std::string> v; return v; }

// ---- small PRNG for *configuration* generation (separate stream from the scheduler's) ---------------------
struct Rng {
    uint64_t s;
    // the state of a splitmix64 stream advances by a constant, so seeding with seed*constant would make the stream of
    // seed+1 the stream of seed shifted by one draw; scramble the seed first
    static uint64_t mix(uint64_t z) { z = (z ^ (z >> 30)) * 0xBF58476D1CE4E5B9ULL; z = (z ^ (z >> 27)) * 0x94D049BB133111EBULL; return z ^ (z >> 31); }
    explicit Rng(uint64_t seed) : s(mix(mix(seed + 0x1234567ULL) ^ 0xA5A5A5A5DEADBEEFULL)) {}
    uint64_t u64() { uint64_t z = (s += 0x9E3779B97F4A7C15ULL); z = (z ^ (z >> 30)) * 0xBF58476D1CE4E5B9ULL; z = (z ^ (z >> 27)) * 0x94D049BB133111EBULL; return z ^ (z >> 31); }
    int below(int n) { return n <= 1 ? 0 : (int)(u64() % (uint64_t)n); }
    int range(int lo, int hi) { return lo + below(hi - lo + 1); }
    bool pct(int p) { return below(100) < p; }
    template <class T> const T& pick(const std::vector<T>& v) { return v[below((int)v.size())]; }
};

// ---- "k=v k=v" configuration strings --------------------------------------------------------------------
struct Cfg {
    std::map<std::string, std::string> kv;
    std::vector<std::string> order;
    void parse(const std::string& s) {
        std::istringstream is(s); std::string tok;
        while (is >> tok) { size_t p = tok.find('='); if (p == std::string::npos) continue; set(tok.substr(0, p), tok.substr(p + 1)); }
    }
    bool has(const std::string& k) const { return kv.count(k) > 0; }
    void set(const std::string& k, const std::string& v) { if (!kv.count(k)) order.push_back(k); kv[k] = v; }
    void set(const std::string& k, long v) { set(k, std::to_string(v)); }
    void def(const std::string& k, const std::string& v) { if (!kv.count(k)) set(k, v); }
    void def(const std::string& k, long v) { if (!kv.count(k)) set(k, std::to_string(v)); }
    long i(const std::string& k, long d = 0) const { auto it = kv.find(k); return it == kv.end() ? d : atol(it->second.c_str()); }
    std::string s(const std::string& k, const std::string& d = "") const { auto it = kv.find(k); return it == kv.end() ? d : it->second; }
    std::string str() const { std::string o; for (auto& k : order) { if (!o.empty()) o += ' '; o += k + "=" + kv.at(k); } return o; }
};

inline std::vector<std::string> split(const std::string& s, char sep) {
    std::vector<std::string> out; std::string cur;
    for (char c : s) { if (c == sep) { out.push_back(cur); cur.clear(); } else cur += c; }
    if (!s.empty()) out.push_back(cur);
    return out;
}

inline std::string jesc(const std::string& s) {
    std::string o;
    for (unsigned char c : s) {
        if (c == '"' || c == '\\') { o += '\\'; o += (char)c; }
        else if (c == '\n') o += "\\n"; else if (c == '\t') o += "\\t";
        else if (c < 0x20) { char b[8]; snprintf(b, sizeof b, "\\u%04x", c); o += b; }
        else o += (char)c;
    }
    return o;
}

// ---- simulator options from a configuration (swarm: every switch is part of the per-run configuration) ----
inline void sim_defaults_from_seed(Cfg& c, Rng& r, int nranks) {
    // each run enables a seeded subset of the fault kinds at seeded rates
    c.def("pol", r.below(3));
    c.def("lat", nranks > 1 ? r.pct(70) : 0);
    c.def("maxlat", r.pick(std::vector<int>{1, 5, 20, 50, 200}));
    c.def("rdv", r.pct(50) ? r.pick(std::vector<int>{10, 30, 60, 100}) : 0);
    c.def("lazy", r.pct(50) ? 100 : 0);
    c.def("stall", r.pct(50) ? r.pick(std::vector<int>{2, 5, 20, 50}) : 0);
    c.def("maxstall", r.pick(std::vector<int>{20, 100, 400}));
    c.def("speeds", r.pct(60));
    c.def("bwait", r.pct(50) ? r.pick(std::vector<int>{20, 50, 100}) : 0);
    c.def("early", r.pick(std::vector<int>{100, 100, 50, 0}));
    c.def("rshuf", r.pct(70));
    c.def("omp", r.pct(30) ? 1 : r.range(1, 16));
    c.def("oshuf", r.pct(70));
    c.def("pctd", r.range(0, 3));
    c.def("pcth", r.pick(std::vector<int>{200, 1000, 5000}));
    c.def("cap", 200000);
    // processors reported by omp_get_num_procs(): independent of the team size (oversubscription is legal). Drawn from a copy
    // of the generator so that the draws of the callers (and therefore every recorded seed) stay what they were.
    { Rng r2 = r; c.def("oprocs", r2.pick(std::vector<int>{1, 2, 3, 4, 8, 16, 16, 64})); }
}

inline sim::Options sim_options(const Cfg& c, int nranks, uint64_t seed) {
    sim::Options o;
    o.nranks = nranks; o.seed = seed;
    o.policy = (int)c.i("pol", 0);
    o.latency = c.i("lat", 0) != 0; o.max_latency = (int)c.i("maxlat", 50);
    o.rdv_pct = (int)c.i("rdv", 0);
    o.lazy_isend_pct = (int)c.i("lazy", 0);
    o.stall_permille = (int)c.i("stall", 0); o.max_stall = (int)c.i("maxstall", 200);
    o.speeds = c.i("speeds", 0) != 0;
    o.bcast_wait_pct = (int)c.i("bwait", 0);
    o.leave_early_pct = (int)c.i("early", 100);
    o.reduce_shuffle = c.i("rshuf", 0) != 0;
    o.omp_threads = (int)c.i("omp", 1); o.omp_shuffle = c.i("oshuf", 0) != 0; o.omp_procs = (int)c.i("oprocs", 16);
    o.pct_depth = (int)c.i("pctd", 0); o.pct_horizon = c.i("pcth", 2000);
    o.step_cap = c.i("cap", 200000);
#ifdef SIM_GOMP_THREADS
    // real-thread builds (ThreadSanitizer / helgrind parts): OpenMP teams are real threads, so the rank must not be a fiber;
    // a one-rank world runs inline on the caller's stack (every MPI call of a single rank completes on the spot)
    if (nranks == 1) o.inline_single = true;
#endif
    return o;
}

inline std::string stats_json(const sim::Stats& s) {
    std::ostringstream o;
    o << "{\"steps\":" << s.steps << ",\"yields\":" << s.yields << ",\"sends\":" << s.sends << ",\"sends_rdv\":" << s.sends_rdv
      << ",\"rdv_blocked\":" << s.rdv_blocked << ",\"lazy_isends\":" << s.lazy_isends << ",\"deliveries\":" << s.deliveries << ",\"reordered\":" << s.delivered_out_of_global_order
      << ",\"unexpected\":" << s.unexpected << ",\"matches\":" << s.matches << ",\"self_sends\":" << s.self_sends
      << ",\"wildcard_matches\":" << s.wildcard_matches << ",\"wildcard_competition\":" << s.wildcard_competition
      << ",\"tests_ok\":" << s.tests_ok << ",\"tests_fail\":" << s.tests_fail << ",\"cancels_pending\":" << s.cancels_pending
      << ",\"cancels_matched\":" << s.cancels_matched << ",\"collectives\":" << s.collectives << ",\"bcast_root_waited\":" << s.bcast_root_waited
      << ",\"reduce_left_early\":" << s.reduce_left_early << ",\"reduce_shuffled\":" << s.reduce_shuffled << ",\"stalls\":" << s.stalls
      << ",\"demotions\":" << s.demotions << ",\"omp_regions\":" << s.omp_regions << ",\"omp_shuffled\":" << s.omp_shuffled
      << ",\"omp_max_team\":" << s.omp_max_team << ",\"splits\":" << s.splits << ",\"contexts\":" << s.contexts
      << ",\"work_calls\":" << s.work_calls << ",\"vtime\":" << s.vtime << "}";
    return o.str();
}

// ---- per-run outcome produced by a harness ------------------------------------------------------------------
struct Outcome {
    std::string verdict = "ok";     // ok or a violation class
    std::string detail;
    uint64_t hash = 0, ohash = 0, phash = 0;
    sim::Stats st;
    std::map<std::string, long> probes;  // harness "this rare condition was hit" counters
    std::string sig;                     // optional coverage signature (e.g. job->rank map)
    std::vector<int> choices;
    std::string trace;
    long nworlds = 0;
    void absorb(const sim::Result& r) {
        nworlds++;
        hash = hash * 1099511628211ULL ^ r.hash;
        ohash = ohash * 1099511628211ULL ^ r.order_hash;
        phash = phash * 1099511628211ULL ^ r.p2p_hash;
        const sim::Stats& s = r.st;
#define ACC(f) st.f += s.f
        ACC(steps); ACC(yields); ACC(sends); ACC(sends_rdv); ACC(rdv_blocked); ACC(lazy_isends); ACC(deliveries); ACC(delivered_out_of_global_order);
        ACC(unexpected); ACC(matches); ACC(self_sends); ACC(wildcard_matches); ACC(wildcard_competition); ACC(tests_ok); ACC(tests_fail);
        ACC(cancels_pending); ACC(cancels_matched); ACC(collectives); ACC(bcast_root_waited); ACC(reduce_left_early); ACC(reduce_shuffled);
        ACC(stalls); ACC(demotions); ACC(omp_regions); ACC(omp_shuffled); ACC(splits); ACC(work_calls); ACC(vtime);
#undef ACC
        st.omp_max_team = std::max(st.omp_max_team, s.omp_max_team);
        st.contexts = std::max(st.contexts, s.contexts);
        if (verdict == "ok" && r.verdict != "ok") { verdict = r.verdict; detail = r.detail; }
    }
};

struct RunSpec {
    uint64_t seed = 0;
    Cfg cfg;                    // overrides (replay) - the harness fills in the rest from the seed
    bool replay = false;
    std::vector<int> choices;
    bool want_choices = false;
    bool want_trace = false;
};

typedef std::function<Outcome(RunSpec&)> RunFn;

// CPU-time watchdog: a rank that spins without ever making a simulated call never returns control to the scheduler.
// ITIMER_VIRTUAL counts this process's own CPU time, so machine load cannot trigger it.
inline void watchdog_handler(int) {
    static const char msg[] = "SIM-WATCHDOG: the run consumed its CPU budget without returning to the scheduler (a rank spins without any MPI call)\n";
    ssize_t r = write(2, msg, sizeof msg - 1); (void)r;
    _exit(79);
}
inline void watchdog_arm(long cpu_seconds) {
    struct itimerval it; memset(&it, 0, sizeof it); it.it_value.tv_sec = cpu_seconds;
    setitimer(ITIMER_VIRTUAL, &it, 0);
}

// called by a harness once the configuration of the run is final and before anything can crash:
// lets the runner recover the configuration of a run that killed the worker
inline FILE*& out_fp() { static FILE* f = nullptr; return f; }
inline void announce(const RunSpec& rs) { if (out_fp()) { fprintf(out_fp(), "CFG %llu %s\n", (unsigned long long)rs.seed, rs.cfg.str().c_str()); fflush(out_fp()); } }

// silence library chatter (pomerol prints progress on std::cout and errors on std::cerr)
struct NullBuf : std::streambuf { int overflow(int c) override { return c; } };

// resident set size in MiB (pomerol leaks by design - raw new in Lattice, transpose() ... - so a worker that has grown too
// large ends early and is restarted by the runner on its remaining seeds)
inline long rss_mib() {
    FILE* f = fopen("/proc/self/statm", "r"); if (!f) return 0;
    long size = 0, res = 0; int n = fscanf(f, "%ld %ld", &size, &res); fclose(f);
    return n == 2 ? res * (sysconf(_SC_PAGESIZE) / 1024) / 1024 : 0;
}

inline int harness_main(int argc, char** argv, const char* name, const RunFn& run_one) {
    uint64_t seed_start = 1, seed_step = 1; long max_runs = 1; double time_limit = 1e18;
    RunSpec base;
    bool verbose = false;
    long watchdog = 150, max_rss = 1500;
    signal(SIGVTALRM, watchdog_handler);
    for (int i = 1; i < argc; i++) {
        std::string a = argv[i];
        auto next = [&]() -> std::string { if (i + 1 >= argc) { fprintf(stderr, "missing value for %s\n", a.c_str()); exit(2); } return argv[++i]; };
        if (a == "--watchdog") watchdog = atol(next().c_str());
        else if (a == "--max-rss") max_rss = atol(next().c_str());
        else if (a == "--seed-start") seed_start = strtoull(next().c_str(), 0, 10);
        else if (a == "--seed-step") seed_step = strtoull(next().c_str(), 0, 10);
        else if (a == "--max-runs") max_runs = atol(next().c_str());
        else if (a == "--time-limit") time_limit = atof(next().c_str());
        else if (a == "--cfg") base.cfg.parse(next());
        else if (a == "--choices-file") {
            std::ifstream f(next()); int v; base.replay = true;
            while (f >> v) base.choices.push_back(v);
        }
        else if (a == "--replay-default") base.replay = true;      // all choices default (0)
        else if (a == "--emit-choices") base.want_choices = true;
        else if (a == "--trace") base.want_trace = true;
        else if (a == "--verbose") verbose = true;
        else { fprintf(stderr, "%s: unknown argument %s\n", name, a.c_str()); return 2; }
    }
    FILE* out = fdopen(dup(1), "w");
    out_fp() = out;
    static NullBuf nullbuf;
    std::streambuf* old_cout = std::cout.rdbuf();
    std::streambuf* old_cerr = std::cerr.rdbuf();
    if (!verbose) { std::cout.rdbuf(&nullbuf); std::cerr.rdbuf(&nullbuf); }
    auto t0 = std::chrono::steady_clock::now();
    for (long k = 0; k < max_runs; k++) {
        double el = std::chrono::duration<double>(std::chrono::steady_clock::now() - t0).count();
        if (k > 0 && el > time_limit) break;
        RunSpec rs = base;
        rs.seed = seed_start + (uint64_t)k * seed_step;
        fprintf(out, "START %llu\n", (unsigned long long)rs.seed); fflush(out);
        ubsan_reports().clear();
        auto r0 = std::chrono::steady_clock::now();
        watchdog_arm(watchdog);
        Outcome oc = run_one(rs);
        watchdog_arm(0);
        double rt = std::chrono::duration<double>(std::chrono::steady_clock::now() - r0).count();
        std::ostringstream o;
        o << "RESULT {\"harness\":\"" << name << "\",\"seed\":" << rs.seed << ",\"verdict\":\"" << jesc(oc.verdict) << "\",\"detail\":\"" << jesc(oc.detail)
          << "\",\"hash\":\"" << std::hex << oc.hash << "\",\"ohash\":\"" << oc.ohash << "\",\"phash\":\"" << oc.phash << std::dec << "\",\"cfg\":\"" << jesc(rs.cfg.str()) << "\",\"nworlds\":" << oc.nworlds
          << ",\"wall\":" << rt << ",\"stats\":" << stats_json(oc.st) << ",\"sig\":\"" << jesc(oc.sig) << "\",\"probes\":{";
        bool first = true;
        for (auto& p : oc.probes) { if (!first) o << ","; first = false; o << "\"" << jesc(p.first) << "\":" << p.second; }
        o << "},\"ubsan\":[";
        for (size_t j = 0; j < ubsan_reports().size() && j < 20; j++) { if (j) o << ","; o << "\"" << jesc(ubsan_reports()[j]) << "\""; }
        o << "]";
        if (rs.want_choices || rs.replay) { o << ",\"choices\":["; for (size_t j = 0; j < oc.choices.size(); j++) { if (j) o << ","; o << oc.choices[j]; } o << "]"; }
        if (rs.want_trace) o << ",\"trace\":\"" << jesc(oc.trace) << "\"";
        o << "}";
        fprintf(out, "%s\n", o.str().c_str()); fflush(out);
        if ((k & 31) == 31 && rss_mib() > max_rss) { fprintf(out, "RECYCLE rss=%ld MiB\n", rss_mib()); break; }
    }
    fprintf(out, "DONE\n"); fflush(out);
    std::cout.rdbuf(old_cout); std::cerr.rdbuf(old_cerr);
    return 0;
}

} // namespace hc

// ---- sanitizer defaults / hooks (non-inline, emitted in the harness TU that defines HC_MAIN_TU) ---------------
#ifdef HC_MAIN_TU
extern "C" {
__attribute__((used, visibility("default"))) const char* __asan_default_options() {
    return "exitcode=77:detect_leaks=0:abort_on_error=0:allocator_may_return_null=1:detect_stack_use_after_return=1:handle_segv=1";
}
__attribute__((used, visibility("default"))) const char* __ubsan_default_options() { return "print_stacktrace=0:halt_on_error=0"; }
// ThreadSanitizer builds (variant "tsan"): the first race report ends the process (exit 66) so that it is attributed to the seed in progress
__attribute__((used, visibility("default"))) const char* __tsan_default_options() {
    return "halt_on_error=1:exitcode=66:report_signal_unsafe=0:second_deadlock_stack=0:history_size=4";
}
void __ubsan_get_current_report_data(const char** kind, const char** msg, const char** file, unsigned* line, unsigned* col, char** addr) __attribute__((weak));
void __sanitizer_symbolize_pc(void* pc, const char* fmt, char* out_buf, size_t out_buf_size) __attribute__((weak));
int backtrace(void** buffer, int size);
__attribute__((used, visibility("default"))) void __ubsan_on_report(void) {
    if (!__ubsan_get_current_report_data) { hc::ubsan_reports().push_back("ubsan report"); return; }
    const char *k = 0, *m = 0, *f = 0; unsigned l = 0, c = 0; char* a = 0;
    __ubsan_get_current_report_data(&k, &m, &f, &l, &c, &a);
    std::string s = std::string(k ? k : "?") + ": " + (m ? m : "") + " at " + (f ? f : "?") + ":" + std::to_string(l);
    // innermost frame that belongs to pomerol (the UB location itself is often inside an STL/Eigen header)
    std::string where;
    if (__sanitizer_symbolize_pc) {
        void* pcs[40]; int n = backtrace(pcs, 40);
        for (int i = 1; i < n && where.empty(); i++) {
            char buf[4096]; memset(buf, 0, sizeof buf);
            __sanitizer_symbolize_pc((char*)pcs[i] - 1, "%f %s:%l", buf, sizeof buf - 2);
            // inlined frames come as consecutive NUL-terminated strings, innermost first
            for (const char* p = buf; *p && where.empty(); p += strlen(p) + 1) {
                std::string b(p);
                if (b.find("/src/pomerol/") != std::string::npos || b.find("/include/pomerol/") != std::string::npos || b.find("mpi_dispatcher") != std::string::npos) where = b;
            }
        }
    }
    if (!where.empty()) s += " in " + where;
    if (hc::ubsan_reports().size() < 200) hc::ubsan_reports().push_back(s);
}
}
#endif
