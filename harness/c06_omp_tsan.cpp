// C06, OpenMP part: ThreadSanitizer probe of the parallel region(s) reachable from TwoParticleGF::compute.
// SimGOMP runs the team on REAL threads here (build variant "tsan", -DSIM_GOMP_THREADS) and the single rank runs inline on
// the caller's stack; the deterministic harness c06_parallel covers team sizes and iteration-to-thread assignments, this
// one covers what it cannot: data races between iterations inside the loop body. A race report ends the process
// (halt_on_error, exit code 66) and is attributed to the seed in progress; the tables computed with T threads are also
// compared with the ones computed with one thread. DESIGN.md §2.5 / §8.
#define HC_MAIN_TU
#include <boost/mpi.hpp>
#include "common.hpp"
#include "models.hpp"
#include <set>
#include <cmath>

namespace mpi = boost::mpi;
using namespace Pomerol;
using models::quad; using models::quad_str;


typedef std::map<std::string, std::vector<ComplexType> > Tables;

static Tables compute_tables(int model, long mp, bool nosym, int beta, int wf, bool split, const std::vector<std::string>& quads, const std::string& freqs_s, int threads, int procs, uint64_t seed, std::string* err, sim::Stats* st) {
    Tables out;
    sim::Options o; o.nranks = 1; o.seed = seed; o.inline_single = true; o.omp_threads = threads; o.omp_procs = procs;
    sim::World w(o);
    sim::Result r = w.run([&](int) {
        mpi::communicator comm;
        models::Stage0 s0(model, mp, nosym);
        s0.H->prepare(comm); s0.H->compute(comm);
        models::Stage1 s1(s0, beta);
        std::vector<models::FreqTuple> freqs = models::freqs_from(freqs_s, beta);
        if (wf == 0) {
            for (auto& qs : quads) {
                IndexCombination4 q = quad(qs);
                TwoParticleGF chi(*s0.S, *s0.H, s1.Ops->getAnnihilationOperator(q.Index1), s1.Ops->getAnnihilationOperator(q.Index2), s1.Ops->getCreationOperator(q.Index3), s1.Ops->getCreationOperator(q.Index4), *s1.rho);
                chi.prepare();
                out[qs] = chi.compute(false, freqs, comm);
                out[qs].push_back(chi(1, -2, 0));
            }
        } else {
            TwoParticleGFContainer Chi(*s0.IndexInfo, *s0.S, *s0.H, *s1.rho, *s1.Ops);
            std::set<IndexCombination4> idx; for (auto& qs : quads) idx.insert(quad(qs));
            Chi.prepareAll(idx);
            std::map<IndexCombination4, std::vector<ComplexType> > t = Chi.computeAll(false, freqs, comm, split);
            for (auto& kv : t) out[quad_str(kv.first)] = kv.second;
        }
    });
    if (r.verdict != "ok") *err = r.verdict + ": " + r.detail;
    if (st) *st = r.st;
    return out;
}

static hc::Outcome run_one(hc::RunSpec& rs) {
    hc::Cfg& c = rs.cfg;
    hc::Rng r(rs.seed ^ 0x75A0ULL);
    c.set("P", 1);
    int model; { int x = r.below(100); model = x < 35 ? models::ATOM : x < 70 ? models::DIMER : x < 80 ? models::KANAMORI : x < 90 ? models::ATOM_FIELD : models::EXCH2; }
    c.def("model", model); model = (int)c.i("model") % models::N_MODELS; if (model < 0 || models::is_big(model) || model == models::ATOMS3) model = 0; c.set("model", model);
    c.def("mp", r.pct(15) ? 0 : r.range(1, 100000));
    c.def("nosym", r.pct(15));
    c.def("beta", r.pick(std::vector<int>{1, 2, 5, 10, 20}));
    c.def("wf", r.pct(50));
    c.def("split", r.pct(50));
    int nm = models::nmodes(model);
    { std::string q; int K = r.range(1, 3); std::set<std::string> seen; for (int k = 0; k < K; k++) { std::string s = models::rand_quad(r, nm); if (!seen.insert(s).second) continue; if (!q.empty()) q += ','; q += s; } c.def("quads", q); }
    c.def("omp", r.range(2, 8));
    { hc::Rng r2 = r; c.def("oprocs", r2.pick(std::vector<int>{1, 2, 3, 4, 8, 16, 16, 64})); }
    // enough frequency points for every thread to get several iterations; sometimes with adjacent duplicates
    c.def("freqs", r.pct(30) ? models::rand_freqs(r, r.range(4, 12)) : "grid:" + std::to_string(r.pick(std::vector<int>{16, 17, 31, 64, 100})) + (r.pct(30) ? ":2" : ""));
    std::vector<std::string> quads; for (auto& q : hc::split(c.s("quads"), ',')) { bool ok = q.size() == 4; for (char ch : q) if (ch < '0' || ch >= '0' + nm) ok = false; if (ok) quads.push_back(q); }
    if (quads.empty()) quads.push_back("0101");
    int T = std::max(2, std::min(16, (int)c.i("omp"))); c.set("omp", T);
    hc::announce(rs);
    hc::Outcome oc;
    std::string e1, eT; sim::Stats st;
    Tables ref = compute_tables(model, c.i("mp"), c.i("nosym") != 0, (int)std::max(1L, c.i("beta")), (int)c.i("wf"), c.i("split") != 0, quads, c.s("freqs"), 1, (int)c.i("oprocs"), rs.seed, &e1, nullptr);
    Tables got = compute_tables(model, c.i("mp"), c.i("nosym") != 0, (int)std::max(1L, c.i("beta")), (int)c.i("wf"), c.i("split") != 0, quads, c.s("freqs"), T, (int)c.i("oprocs"), rs.seed, &eT, &st);
    oc.nworlds = 2; oc.st = st; oc.hash = oc.ohash = oc.phash = std::hash<std::string>()(c.str());
    if (!e1.empty()) { oc.verdict = "reference-" + e1.substr(0, e1.find(':')); oc.detail = e1; return oc; }
    if (!eT.empty()) { oc.verdict = eT.substr(0, eT.find(':')); oc.detail = eT; return oc; }
    if (ref.size() != got.size()) { oc.verdict = "table-mismatch"; oc.detail = "different table key sets with " + std::to_string(T) + " threads"; return oc; }
    for (auto& kv : ref) {
        const std::vector<ComplexType>& b = got[kv.first];
        if (b.size() != kv.second.size()) { oc.verdict = "table-mismatch"; oc.detail = "table[" + kv.first + "] has another size with " + std::to_string(T) + " threads"; return oc; }
        for (size_t i = 0; i < b.size(); i++) if (std::abs(b[i] - kv.second[i]) > 1e-9 * (1 + std::abs(kv.second[i]))) {
            std::ostringstream d; d << "table[" << kv.first << "][" << i << "] = " << b[i] << " with " << T << " threads, " << kv.second[i] << " with one";
            oc.verdict = "table-mismatch"; oc.detail = d.str(); return oc; }
    }
    if (st.omp_regions) oc.probes["omp_region_on_real_threads"]++;
    oc.probes["team_size_" + std::to_string(T)]++;
    oc.sig = "T" + std::to_string(T) + ":" + c.s("freqs").substr(0, 12);
    return oc;
}

int main(int argc, char** argv) { return hc::harness_main(argc, argv, "c06_omp_tsan", run_one); }
